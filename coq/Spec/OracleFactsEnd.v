(* OracleFactsEnd.v — the model satisfies [oracle_early_scan] for every configuration (COPY handlers included) and
   every client stream: when the connection is closed while client frames are still to come, the frame handled
   last is a Terminate or one the server could not read. *)
Require Import Wire.Bytes Spec.BackendSpec Spec.BackendSpecFacts Wire.Errors Wire.Framing Wire.Session
  Wire.SessionFacts Wire.CommandFacts Wire.RobustFacts Wire.Case Spec.KindFacts Spec.Oracles Spec.OracleFacts
  Spec.OracleFactsLife.
From Coq Require Import String.
Local Open Scope string_scope.
Local Open Scope list_scope.
Local Open Scope Z_scope.

Definition erun (m : emon) (evs : list ev) : emon := fold_left emon_step evs m.
Lemma erun_app m a b : erun m (a ++ b) = erun (erun m a) b.
Proof. apply fold_left_app. Qed.

(* the scan and the session agree on the frames still to come, or the session dropped the rest of its input at a
   frame that could not be read (which is then the current frame of the scan) *)
Definition ealigned (m : emon) (fs : list frame) : Prop :=
  e_rem m = fs \/ (fs = [] /\ e_cur m <> None /\ end_reason (e_cur m) = true).

Definition quiet_ev (e : ev) : bool := match e with Consume | Closed => false | _ => true end.
Lemma erun_quiet : forall evs m, forallb quiet_ev evs = true -> erun m evs = m.
Proof.
  induction evs as [|e r IH]; intros m H; [reflexivity|]. cbn [forallb] in H. apply andb_prop in H as [H1 H2].
  cbn [erun fold_left]. fold (erun (emon_step m e) r). rewrite IH by exact H2. destruct e; try discriminate; reflexivity.
Qed.

(* ---------- CopyReader.Read ---------- *)
Lemma copy_read_e L : forall fs tl evs r rest m,
  copy_read L fs tl = (evs, r, rest) -> ealigned m fs ->
  e_ok (erun m evs) = e_ok m /\ ealigned (erun m evs) rest.
Proof.
  induction fs as [|f fr IH]; intros tl evs r rest m H Al; cbn [copy_read] in H.
  - injection H as <- <- <-. split; [reflexivity|exact Al].
  - assert (Rm : e_rem m = f :: fr) by (destruct Al as [Al|(Al & _)]; [exact Al|discriminate]).
    assert (S1 : emon_step m Consume = {| e_rem := fr; e_cur := Some f; e_ok := e_ok m |}) by (unfold emon_step; rewrite Rm; reflexivity).
    assert (One : forall rest0, (rest0 = fr \/ (rest0 = [] /\ wf_client f = false)) ->
              e_ok (erun m [Consume]) = e_ok m /\ ealigned (erun m [Consume]) rest0).
    { intros rest0 Hr. cbn [erun fold_left]. rewrite S1. split; [reflexivity|].
      destruct Hr as [->|[-> W]]; [left; reflexivity|right]. split; [reflexivity|]. split; [discriminate|].
      cbn [e_cur end_reason]. rewrite W. apply orb_true_r. }
    destruct f as [t body|t size [x|]|t size|].
    + destruct (Byte.eqb t x48 || Byte.eqb t x53) eqn:Ths.
      * destruct (copy_read L fr tl) as [[evs0 r0] rest0] eqn:E. injection H as <- <- <-.
        change (Consume :: evs0) with ([Consume] ++ evs0). rewrite erun_app.
        change (erun m [Consume]) with (emon_step m Consume). rewrite S1.
        destruct (IH _ _ _ _ {| e_rem := fr; e_cur := Some (FMsg t body); e_ok := e_ok m |} E (or_introl eq_refl)) as [A B].
        split; [exact A|exact B].
      * destruct (Byte.eqb t x64); [injection H as <- <- <-; apply One; left; reflexivity|].
        destruct (Byte.eqb t x63); [injection H as <- <- <-; apply One; left; reflexivity|].
        destruct (Byte.eqb t x66); [destruct (take_cstr body) as [[d x0]|]|]; injection H as <- <- <-; apply One; left; reflexivity.
    + injection H as <- <- <-. apply One. right. split; reflexivity.
    + injection H as <- <- <-. apply One. left; reflexivity.
    + injection H as <- <- <-. apply One. left; reflexivity.
    + injection H as <- <- <-. apply One. right. split; reflexivity.
Qed.

(* ---------- the handler programs ---------- *)
Lemma run_op_e c cols fmts o w fs tl evs w' fs' st m :
  run_op c cols fmts o w fs tl = (evs, w', fs', st) -> ealigned m fs ->
  e_ok (erun m evs) = e_ok m /\ ealigned (erun m evs) fs'.
Proof.
  intros H Al.
  assert (Q : forall l, forallb quiet_ev l = true -> e_ok (erun m l) = e_ok m /\ ealigned (erun m l) fs)
    by (intros l Hl; rewrite erun_quiet by exact Hl; split; [reflexivity|exact Al]).
  destruct o as [vs| | |tag|f|]; cbn [run_op] in H.
  - destruct (w_closed w); [injection H as <- <- <- <-; apply Q; reflexivity|].
    destruct (write_row (cfg_encode c) cols fmts vs); injection H as <- <- <- <-; apply Q; reflexivity.
  - injection H as <- <- <- <-. apply Q; reflexivity.
  - destruct (w_closed w); [|destruct (negb (w_written w =? 0))]; injection H as <- <- <- <-; apply Q; reflexivity.
  - destruct (w_closed w); injection H as <- <- <- <-; apply Q; reflexivity.
  - destruct (w_closed w); [|destruct cols]; injection H as <- <- <- <-; apply Q; reflexivity.
  - destruct (negb (w_copy w)); [injection H as <- <- <- <-; apply Q; reflexivity|].
    destruct (copy_read (cfg_limit c) fs tl) as [[evs0 r] rest] eqn:E.
    destruct (copy_read_e _ _ _ _ _ _ m E Al) as [A B].
    destruct r; injection H as <- <- <- <-; rewrite erun_app; cbn [erun fold_left emon_step]; (split; [exact A|exact B]).
Qed.

Lemma run_ops_e c cols fmts stop : forall ops w fs tl evs w' fs' res m,
  run_ops c cols fmts stop ops w fs tl = (evs, w', fs', res) -> ealigned m fs ->
  e_ok (erun m evs) = e_ok m /\ ealigned (erun m evs) fs'.
Proof.
  induction ops as [|o r IH]; intros w fs tl evs w' fs' res m H Al; cbn [run_ops] in H.
  - injection H as <- <- <- <-. split; [reflexivity|exact Al].
  - destruct (run_op c cols fmts o w fs tl) as [[[evs1 w1] fs1] st] eqn:E1.
    destruct (run_op_e _ _ _ _ _ _ _ _ _ _ _ m E1 Al) as [A1 B1].
    destruct st.
    + destruct (run_ops c cols fmts stop r w1 fs1 tl) as [[[evs2 w2] fs2] res2] eqn:E2.
      injection H as <- <- <- <-. rewrite erun_app. destruct (IH _ _ _ _ _ _ _ _ E2 B1) as [A2 B2]. split; [rewrite A2; exact A1|exact B2].
    + destruct stop.
      * injection H as <- <- <- <-. split; assumption.
      * destruct (run_ops c cols fmts false r w1 fs1 tl) as [[[evs2 w2] fs2] res2] eqn:E2.
        injection H as <- <- <- <-. rewrite erun_app. destruct (IH _ _ _ _ _ _ _ _ E2 B1) as [A2 B2]. split; [rewrite A2; exact A1|exact B2].
    + injection H as <- <- <- <-. split; assumption.
Qed.

Lemma run_stmt_e c s fmts params fs tl evs fs' res m :
  run_stmt c s fmts params fs tl = (evs, fs', res) -> ealigned m fs ->
  e_ok (erun m evs) = e_ok m /\ ealigned (erun m evs) fs'.
Proof.
  unfold run_stmt. intros H Al.
  destruct (run_ops c (s_cols s) fmts (s_stop s) (s_prog s) w_init fs tl) as [[[evs0 w] fs0] r0] eqn:E.
  injection H as <- <- <-. cbn [erun fold_left emon_step]. eapply run_ops_e; eauto.
Qed.

Lemma quiet_keep m fs l : forallb quiet_ev l = true -> ealigned m fs -> e_ok (erun m l) = e_ok m /\ ealigned (erun m l) fs.
Proof. intros Hl Al. rewrite erun_quiet by exact Hl. split; [reflexivity|exact Al]. Qed.

Lemma define_quiet cols fmts : forallb quiet_ev (define_evs cols fmts) = true.
Proof. destruct cols; reflexivity. Qed.

Lemma run_stmts_e c : forall ss fs tl evs fs' crashed m,
  run_stmts c ss fs tl = (evs, fs', crashed) -> ealigned m fs ->
  e_ok (erun m evs) = e_ok m /\ ealigned (erun m evs) fs'.
Proof.
  induction ss as [|s r IH]; intros fs tl evs fs' crashed m H Al; cbn [run_stmts] in H.
  - injection H as <- <- <-. apply quiet_keep; [reflexivity|exact Al].
  - destruct (run_stmt c s [] [] fs tl) as [[evs1 fs1] res] eqn:E1.
    destruct (quiet_keep m fs _ (define_quiet (s_cols s) []) Al) as [A0 B0].
    destruct (run_stmt_e _ _ _ _ _ _ _ _ _ _ E1 B0) as [A1 B1].
    destruct res.
    + destruct (run_stmts c r fs1 tl) as [[evs2 fs2] cr] eqn:E2.
      injection H as <- <- <-. rewrite !erun_app. destruct (IH _ _ _ _ _ _ E2 B1) as [A2 B2]. split; [rewrite A2, A1; exact A0|exact B2].
    + injection H as <- <- <-. rewrite !erun_app.
      destruct (quiet_keep _ fs1 [Out (err_msg (Some e)); Out ready] eq_refl B1) as [A2 B2]. split; [rewrite A2, A1; exact A0|exact B2].
    + injection H as <- <- <-. rewrite !erun_app.
      destruct (quiet_keep _ fs1 [Crash] eq_refl B1) as [A2 B2]. split; [rewrite A2, A1; exact A0|exact B2].
Qed.

(* ---------- one iteration of the command loop ---------- *)
(* from the state right after the Consume marker of [f]: nothing is judged inside the command; afterwards the scan
   is aligned with what the session has left; and if the command ends the connection, [f] is still the current
   frame and is a Terminate or unreadable *)
Lemma cmd_e c st f rest tl evs st' fs' k m :
  text_safe c -> cmd c st f rest tl = (evs, st', fs', k) -> e_rem m = rest -> e_cur m = Some f ->
  e_ok (erun m evs) = e_ok m /\ ealigned (erun m evs) fs' /\
  (k = Stop -> e_cur (erun m evs) = Some f /\ end_reason (Some f) = true).
Proof.
  intros Hts H Rm Cm.
  assert (Al : ealigned m rest) by (left; exact Rm).
  assert (Quiet : forall l fs0, forallb quiet_ev l = true -> fs0 = rest ->
            e_ok (erun m l) = e_ok m /\ ealigned (erun m l) fs0 /\ (Continue = Stop -> e_cur (erun m l) = Some f /\ end_reason (Some f) = true)).
  { intros l fs0 Hl ->. rewrite erun_quiet by exact Hl. split; [reflexivity|split; [exact Al|discriminate]]. }
  destruct f as [t body|t size [x|]|t size|]; cbn [cmd] in H.
  - destruct (st_discard st && negb (Byte.eqb t x53) && negb (Byte.eqb t x58)); [injection H as <- <- <- <-; apply Quiet; reflexivity|].
    destruct (Byte.eqb t x51) eqn:T51.
    { destruct (simple_query c body rest tl) as [[evs0 fs0] k0] eqn:Q. injection H as <- <- <- <-.
      unfold simple_query in Q. destruct (take_cstr body) as [[q r0]|] eqn:Eb.
      2: { injection Q as <- <- <-. rewrite erun_quiet by reflexivity. split; [reflexivity|split; [exact Al|]]. intros _. split; [exact Cm|].
           apply Byte.byte_dec_bl in T51. subst t. unfold end_reason, wf_client, frame_type; cbn [Byte.eqb Byte.to_bits Bool.eqb andb orb]. rewrite Eb. reflexivity. }
      destruct (is_blank q); [injection Q as <- <- <-; apply Quiet; reflexivity|].
      destruct (cfg_parse c q) as [e|[|s1 r]]; try (injection Q as <- <- <-; apply Quiet; reflexivity).
      destruct (run_stmts c (s1 :: r) rest tl) as [[evs1 fs1] cr] eqn:E. injection Q as <- <- <-.
      rewrite (run_stmts_no_crash _ _ _ _ _ _ _ Hts E).
      cbn [erun fold_left emon_step]. destruct (run_stmts_e _ _ _ _ _ _ _ m E Al) as [A B]. split; [exact A|split; [exact B|discriminate]]. }
    destruct (Byte.eqb t x45) eqn:T45.
    { unfold do_execute in H. destruct (take_cstr body) as [[name l1]|] eqn:Eb.
      2: { injection H as <- <- <- <-. rewrite erun_quiet by reflexivity. split; [reflexivity|split; [exact Al|]]. intros _. split; [exact Cm|].
           apply Byte.byte_dec_bl in T45. subst t. unfold end_reason, wf_client, frame_type. cbn [Byte.eqb Byte.to_bits Bool.eqb andb orb]. rewrite Eb. reflexivity. }
      destruct (p_u32 l1) as [pu|] eqn:Eu.
      2: { injection H as <- <- <- <-. rewrite erun_quiet by reflexivity. split; [reflexivity|split; [exact Al|]]. intros _. split; [exact Cm|].
           apply Byte.byte_dec_bl in T45. subst t. unfold end_reason, wf_client, frame_type. cbn [Byte.eqb Byte.to_bits Bool.eqb andb orb]. rewrite Eb, Eu. reflexivity. }
      destruct (alist_get name (st_portals st)) as [p|].
      - destruct (run_stmt c (p_stmt p) (p_rfmts p) (p_params p) rest tl) as [[evs1 fs1] res] eqn:E.
        destruct (run_stmt_e _ _ _ _ _ _ _ _ _ m E Al) as [A B].
        destruct res; unfold ext_err in H; injection H as <- <- <- <-; rewrite ?erun_app;
          (split; [|split; [|discriminate]]); try exact A; try exact B;
          try (rewrite erun_quiet by reflexivity; assumption).
      - unfold ext_err in H. injection H as <- <- <- <-. apply Quiet; reflexivity. }
    (* the remaining message types neither read frames nor run handlers: quiet events, and Stop only with a reason *)
    assert (Rest : forall l st0 k0, (l, st0, k0) = (evs, st', k) -> fs' = rest ->
              forallb quiet_ev l = true -> (k0 = Stop -> end_reason (Some (FMsg t body)) = true) ->
              e_ok (erun m evs) = e_ok m /\ ealigned (erun m evs) fs' /\ (k = Stop -> e_cur (erun m evs) = Some (FMsg t body) /\ end_reason (Some (FMsg t body)) = true)).
    { intros l st0 k0 Eq -> Hl Hk. injection Eq as <- _ <-. rewrite erun_quiet by exact Hl.
      split; [reflexivity|split; [exact Al|]]. intros Ks. split; [exact Cm|apply Hk; exact Ks]. }
    destruct (Byte.eqb t x50) eqn:T50.
    { destruct (do_parse c st body) as [[evs0 st0] k0] eqn:Q. injection H as <- <- <- <-.
      apply (Rest evs0 st0 k0 eq_refl eq_refl).
      - pose proof (cmd_kind c st (FMsg t body) rest tl evs0 st0 rest k0 Hts) as K. clear K.
        unfold do_parse in Q. destruct (take_cstr body) as [[name l1]|]; [|injection Q as <- <- <-; reflexivity].
        destruct (take_cstr l1) as [[q l2]|]; [|injection Q as <- <- <-; reflexivity].
        destruct (p_u16 l2) as [pu|]; [|injection Q as <- <- <-; reflexivity].
        destruct (cfg_parse c q) as [e|[|s1 [|s2 r]]]; unfold ext_err in Q; injection Q as <- <- <-; reflexivity.
      - intros Ks. apply Byte.byte_dec_bl in T50. subst t. unfold end_reason, wf_client, frame_type; cbn [Byte.eqb Byte.to_bits Bool.eqb andb orb].
        unfold do_parse in Q. destruct (take_cstr body) as [[name l1]|]; [|reflexivity].
        destruct (take_cstr l1) as [[q l2]|]; [|reflexivity].
        destruct (p_u16 l2) as [pu|]; [|reflexivity].
        destruct (cfg_parse c q) as [e|[|s1 [|s2 r]]]; unfold ext_err in Q; injection Q as _ _ <-; discriminate Ks. }
    destruct (Byte.eqb t x44) eqn:T44.
    { destruct (do_describe st body) as [[evs0 st0] k0] eqn:Q. injection H as <- <- <- <-.
      apply (Rest evs0 st0 k0 eq_refl eq_refl).
      - unfold do_describe in Q. destruct body as [|kd l1]; [injection Q as <- <- <-; reflexivity|].
        destruct (take_cstr l1) as [[name l2]|]; [|injection Q as <- <- <-; reflexivity].
        destruct (Byte.eqb kd x53); [destruct (alist_get name (st_stmts st))|destruct (Byte.eqb kd x50); [destruct (alist_get name (st_portals st))|]];
          unfold ext_err in Q; injection Q as <- <- <-; reflexivity.
      - intros Ks. apply Byte.byte_dec_bl in T44. subst t. unfold end_reason, wf_client, frame_type; cbn [Byte.eqb Byte.to_bits Bool.eqb andb orb].
        unfold do_describe in Q. destruct body as [|kd l1]; [reflexivity|].
        destruct (take_cstr l1) as [[name l2]|]; [|reflexivity].
        destruct (Byte.eqb kd x53); [destruct (alist_get name (st_stmts st))|destruct (Byte.eqb kd x50); [destruct (alist_get name (st_portals st))|]];
          unfold ext_err in Q; injection Q as _ _ <-; discriminate Ks. }
    destruct (Byte.eqb t x53) eqn:T53; [injection H as <- <- <- <-; apply Quiet; reflexivity|].
    destruct (Byte.eqb t x42) eqn:T42.
    { destruct (do_bind st body) as [[evs0 st0] k0] eqn:Q. injection H as <- <- <- <-.
      apply (Rest evs0 st0 k0 eq_refl eq_refl).
      - unfold do_bind in Q. destruct (decode_bind body) as [b|]; [|injection Q as <- <- <-; reflexivity].
        destruct (alist_get (b_stmt b) (st_stmts st)); unfold ext_err in Q; injection Q as <- <- <-; reflexivity.
      - intros Ks. apply Byte.byte_dec_bl in T42. subst t. unfold end_reason, wf_client, frame_type; cbn [Byte.eqb Byte.to_bits Bool.eqb andb orb].
        unfold do_bind in Q. destruct (decode_bind body) as [b|]; [|reflexivity].
        destruct (alist_get (b_stmt b) (st_stmts st)); unfold ext_err in Q; injection Q as _ _ <-; discriminate Ks. }
    destruct (Byte.eqb t x48); [injection H as <- <- <- <-; apply Quiet; reflexivity|].
    match type of H with (if ?b then _ else _) = _ => destruct b end; [injection H as <- <- <- <-; apply Quiet; reflexivity|].
    destruct (Byte.eqb t x43) eqn:T43.
    { destruct (do_close st body) as [[evs0 st0] k0] eqn:Q. injection H as <- <- <- <-.
      apply (Rest evs0 st0 k0 eq_refl eq_refl).
      - unfold do_close in Q. destruct body as [|kd l1]; [injection Q as <- <- <-; reflexivity|].
        destruct (take_cstr l1) as [[name l2]|]; [|injection Q as <- <- <-; reflexivity].
        destruct (Byte.eqb kd x53); [|destruct (Byte.eqb kd x50)]; unfold ext_err in Q; injection Q as <- <- <-; reflexivity.
      - intros Ks. apply Byte.byte_dec_bl in T43. subst t. unfold end_reason, wf_client, frame_type; cbn [Byte.eqb Byte.to_bits Bool.eqb andb orb].
        unfold do_close in Q. destruct body as [|kd l1]; [reflexivity|].
        destruct (take_cstr l1) as [[name l2]|]; [|reflexivity].
        destruct (Byte.eqb kd x53); [|destruct (Byte.eqb kd x50)]; unfold ext_err in Q; injection Q as _ _ <-; discriminate Ks. }
    destruct (Byte.eqb t x58) eqn:T58.
    { destruct (cfg_term c); injection H as <- <- <- <-; rewrite erun_quiet by reflexivity;
        (split; [reflexivity|split; [exact Al|]]; intros _; split; [exact Cm|]; apply Byte.byte_dec_bl in T58; subst t; reflexivity). }
    injection H as <- <- <- <-. apply Quiet; reflexivity.
  - injection H as <- <- <- <-. rewrite erun_quiet by reflexivity. split; [reflexivity|]. split.
    + right. split; [reflexivity|]. rewrite Cm. split; [discriminate|cbn [end_reason wf_client negb]; apply orb_true_r].
    + intros _. split; [exact Cm|cbn [end_reason wf_client negb]; apply orb_true_r].
  - destruct (do_oversize c st t size) as [evs0 st0] eqn:Q. injection H as <- <- <- <-.
    assert (Hq : forallb quiet_ev evs0 = true).
    { unfold do_oversize in Q. destruct (st_discard st && negb (Byte.eqb t x53)); [injection Q as <- <-; reflexivity|].
      destruct (is_ext t); [unfold ext_err in Q; injection Q as <- <-; reflexivity|].
      destruct (Byte.eqb t x53); injection Q as <- <-; reflexivity. }
    apply Quiet; [exact Hq|reflexivity].
  - destruct (do_oversize c st t size) as [evs0 st0] eqn:Q. injection H as <- <- <- <-.
    assert (Hq : forallb quiet_ev evs0 = true).
    { unfold do_oversize in Q. destruct (st_discard st && negb (Byte.eqb t x53)); [injection Q as <- <-; reflexivity|].
      destruct (is_ext t); [unfold ext_err in Q; injection Q as <- <-; reflexivity|].
      destruct (Byte.eqb t x53); injection Q as <- <-; reflexivity. }
    apply Quiet; [exact Hq|reflexivity].
  - injection H as <- <- <- <-. rewrite erun_quiet by reflexivity. split; [reflexivity|]. split.
    + right. split; [reflexivity|]. rewrite Cm. split; [discriminate|cbn [end_reason wf_client negb]; apply orb_true_r].
    + intros _. split; [exact Cm|cbn [end_reason wf_client negb]; apply orb_true_r].
Qed.

(* ---------- the command loop and the session ---------- *)
Lemma closed_step m fs : e_ok m = true -> ealigned m fs -> fs = [] -> e_ok (emon_step m Closed) = true.
Proof.
  intros A Al ->. cbn [emon_step e_ok]. rewrite A. cbn [andb].
  destruct Al as [->|(_ & _ & R)]; [reflexivity|]. destruct (e_rem m); [reflexivity|exact R].
Qed.

Lemma loop_e c tl : text_safe c -> forall fuel st fs m,
  e_ok m = true -> ealigned m fs -> e_ok (erun m (loop fuel c st fs tl)) = true.
Proof.
  intros Hts. induction fuel as [|fuel IH]; intros st fs m A Al; [exact A|].
  destruct fs as [|f rest].
  - cbn [loop erun fold_left]. apply (closed_step m []); auto.
  - cbn [loop]. destruct (cmd c st f rest tl) as [[[evs st'] fs'] k] eqn:E.
    assert (Rm : e_rem m = f :: rest) by (destruct Al as [Al|(Al & _)]; [exact Al|discriminate]).
    set (m1 := emon_step m Consume).
    assert (S1 : m1 = {| e_rem := rest; e_cur := Some f; e_ok := e_ok m |}) by (unfold m1, emon_step; rewrite Rm; reflexivity).
    destruct (cmd_e _ _ _ _ _ _ _ _ _ m1 Hts E) as (A1 & B1 & K1); [rewrite S1; reflexivity|rewrite S1; reflexivity|].
    destruct k.
    + change (Consume :: evs ++ loop fuel c st' fs' tl) with ([Consume] ++ evs ++ loop fuel c st' fs' tl).
      rewrite !erun_app. change (erun m [Consume]) with m1. apply IH.
      * rewrite A1, S1. exact A.
      * exact B1.
    + change (Consume :: evs ++ [Closed]) with ([Consume] ++ evs ++ [Closed]). rewrite !erun_app. change (erun m [Consume]) with m1.
      destruct (K1 eq_refl) as [Kc Kr].
      assert (Em1 : e_ok m1 = true) by (rewrite S1; exact A).
      change (erun (erun m1 evs) [Closed]) with (emon_step (erun m1 evs) Closed). unfold emon_step. cbn [e_ok].
      rewrite A1, Em1, Kc. cbn [andb]. destruct (e_rem (erun m1 evs)); [reflexivity|exact Kr].
Qed.

(* before the first Consume marker the scan has no current frame: a connection that ends there (startup or
   authentication failure, failing middleware) is not judged *)
Lemma e_idle : forall pre m, no_consume pre = true -> e_cur m = None -> e_ok m = true ->
  e_ok (erun m pre) = true /\ e_cur (erun m pre) = None /\ e_rem (erun m pre) = e_rem m.
Proof.
  induction pre as [|e r IH]; intros m H C A; [auto|]. cbn [no_consume forallb] in H. apply andb_prop in H as [H1 H2].
  cbn [erun fold_left]. fold (erun (emon_step m e) r).
  assert (S : e_ok (emon_step m e) = true /\ e_cur (emon_step m e) = None /\ e_rem (emon_step m e) = e_rem m).
  { destruct e; try discriminate; cbn [emon_step e_ok e_cur e_rem]; auto. }
  destruct S as (S1 & S2 & S3). destruct (IH _ H2 S2 S1) as (I1 & I2 & I3). rewrite I3, S3. auto.
Qed.

Definition emon_init (fs : list frame) : emon := {| e_rem := fs; e_cur := None; e_ok := true |}.

Lemma session_e c after s fs : text_safe c ->
  (forall cparams aevs s', read_params (S (List.length after)) after = Some cparams ->
     auth_phase c cparams s = (aevs, s', true) -> fs = fst (frames (cfg_limit c) s')) ->
  e_ok (erun (emon_init fs) (session c after s)) = true.
Proof.
  intros Hts Hfs. unfold session.
  assert (Short : forall pre, no_consume pre = true -> e_ok (erun (emon_init fs) (pre ++ [Closed])) = true).
  { intros pre P. rewrite erun_app. destruct (e_idle pre (emon_init fs) P eq_refl eq_refl) as (X & Y & _).
    cbn [erun fold_left emon_step e_ok]. rewrite X, Y. cbn. destruct (e_rem (erun (emon_init fs) pre)); reflexivity. }
  destruct (read_params (S (List.length after)) after) as [cparams|] eqn:Er; [|apply (Short []); reflexivity].
  destruct (auth_phase c cparams s) as [[aevs s'] ok] eqn:Ea.
  pose proof (auth_phase_plain _ _ _ _ _ _ Ea) as Pa.
  destruct ok; cbn [negb]; [|apply Short; exact Pa].
  specialize (Hfs _ _ _ eq_refl Ea).
  pose proof (run_mws_plain (cfg_mws c) 0) as Pm.
  destruct (run_mws (cfg_mws c) 0) as [mevs mok]. cbn [fst] in Pm.
  set (pevs := map (fun kv : bytes * bytes => Out (BParamStatus (fst kv) (snd kv))) (server_params c (param_get (bs "user") cparams))).
  assert (Pp : no_consume pevs = true) by apply pstatus_plain.
  destruct mok; cbn [negb].
  - destruct (frames (cfg_limit c) s') as [fs0 tl] eqn:Ef. cbn [fst] in Hfs. subst fs0.
    rewrite !app_assoc. rewrite erun_app.
    destruct (e_idle (((aevs ++ pevs) ++ mevs) ++ [Out ready]) (emon_init fs)) as (X & Y & Z);
      [rewrite !no_consume_app, Pa, Pp, Pm; reflexivity|reflexivity|reflexivity|].
    apply loop_e; [exact Hts|exact X|left; rewrite Z; reflexivity].
  - rewrite !app_assoc. apply Short. rewrite !no_consume_app, Pa, Pp, Pm. reflexivity.
Qed.

Lemma closed_only fs : e_ok (erun (emon_init fs) [Closed]) = true.
Proof. destruct fs; reflexivity. Qed.

Theorem oracle_early_scan_model sc :
  (forall v after rest, start (cfg_of_case sc) (sc_raw sc) = Some (v, after, rest) -> v <> version_ssl) ->
  oracle_early_scan sc (run_case sc) = true.
Proof.
  intros Hssl. unfold oracle_early_scan. fold (emon_init (client_frames sc)). fold (erun (emon_init (client_frames sc)) (run_case sc)).
  unfold run_case, serve.
  destruct (start (cfg_of_case sc) (sc_raw sc)) as [[[v after] rest]|] eqn:Es; [|apply closed_only].
  destruct (v =? version_cancel); [apply closed_only|].
  destruct (Z.eqb_spec v version_ssl) as [->|_]; [exfalso; eapply Hssl; eauto|].
  apply session_e; [apply case_text_safe|]. intros cparams aevs s' _ Hauth. eapply case_frames; eauto.
Qed.
