(* Oracle for C17, evaluated on the bytes the real ErrorCode wrote. *)
Require Import Wire.Bytes Spec.BackendSpec Wire.Errors Spec.ErrorSpec Spec.ErrorFields.
Local Open Scope list_scope.

(* [out] must be exactly one ErrorResponse with the specified fields followed
   by ReadyForQuery(idle) *)
Definition oracle_C17 (e : option err) (out : bytes) : bool :=
  match parse_stream out with
  | Some [BError fs; BReady s] =>
      Byte.eqb s x49 &&
      efields_eqb fs (match e with Some e' => spec_fields e' | None => nil_fields end) &&
      (* the line number, when present, is decimal text *)
      forallb (fun f => if Byte.eqb (fst f) x4c then
                          match atoi_text (snd f) with Some _ => true | None => false end
                        else true) fs
  | _ => false
  end.

(* the model's bytes for the same call *)
Definition model_errorcode (e : option err) : bytes :=
  enc_bmsg (BError (err_fields e)) ++ enc_bmsg (BReady x49).
