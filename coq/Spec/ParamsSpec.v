(* ParamsSpec.v — what ParseParameters is supposed to compute, written
   independently of the scanner in Wire/Params.v: the query is cut at every
   '$'; each piece after the first contributes the decimal number formed by its
   leading ASCII digits, if there are any. *)
Require Import Wire.Bytes.

(* split at every '$' *)
Fixpoint split_dollar (cur : bytes) (q : bytes) : list bytes :=
  match q with
  | [] => [cur]
  | b :: r => if Byte.eqb b x24 then cur :: split_dollar [] r
              else split_dollar (cur ++ [b]) r
  end.

Fixpoint leading_digits (l : bytes) : bytes :=
  match l with
  | b :: r => if is_digit b then b :: leading_digits r else []
  | [] => []
  end.

(* positional indices in order of appearance *)
Definition dollar_indices (q : bytes) : list Z :=
  flat_map (fun piece => match leading_digits piece with
                         | [] => []
                         | ds => [dec_val ds]
                         end)
           (tl (split_dollar [] q)).

Definition max_index (q : bytes) : Z := fold_left Z.max (dollar_indices q) 0%Z.

Definition count_qmark (q : bytes) : Z :=
  lenZ (filter (fun b => Byte.eqb b x3f) q).

Definition has_qmark (q : bytes) : bool := existsb (fun b => Byte.eqb b x3f) q.
Definition has_dollar_index (q : bytes) : bool :=
  match dollar_indices q with [] => false | _ => true end.

(* linear-time versions used by the executable oracle (the accumulator is kept
   reversed); equal to the definitions above (ParamsFacts.split_dollar_fast_eq) *)
Fixpoint split_dollar_fast (cur_rev : bytes) (q : bytes) : list bytes :=
  match q with
  | [] => [rev_append cur_rev []]
  | b :: r => if Byte.eqb b x24 then rev_append cur_rev [] :: split_dollar_fast [] r
              else split_dollar_fast (b :: cur_rev) r
  end.

Definition dollar_indices_fast (q : bytes) : list Z :=
  flat_map (fun piece => match leading_digits piece with
                         | [] => []
                         | ds => [dec_val ds]
                         end)
           (tl (split_dollar_fast [] q)).
Definition max_index_fast (q : bytes) : Z := fold_left Z.max (dollar_indices_fast q) 0%Z.
Definition has_dollar_index_fast (q : bytes) : bool :=
  match dollar_indices_fast q with [] => false | _ => true end.

(* allocation budget, in bytes, for one call on a query of the given length: the
   result slice grows by appending one 4-byte OID at a time (at most
   count_qmark q + 65535 appends, Props/C20.v C20_work), Go's append at most doubles the
   capacity per growth, and the regular-expression matcher allocates per match *)
Definition alloc_budget (q : bytes) : Z := 8388608 + 1024 * lenZ q.
