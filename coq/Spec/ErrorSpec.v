(* ErrorSpec.v — specification of "the outermost value of each decoration":
   walk the error from the outside in and take the first node of the kind. *)
Require Import Wire.Bytes Wire.Errors.

Inductive deco :=
| DCode (c : bytes) | DSev (s : bytes) | DHint (h : bytes) | DDetail (d : bytes)
| DSource (f : bytes) (l : Z) (fn : bytes) | DConstraint (c : bytes) | DNone.

(* the decoration carried by the outermost node, and the error below it *)
Definition peel (e : err) : deco * option err :=
  match e with
  | EBase _ => (DNone, None)
  | EWrap _ _ e' => (DNone, Some e')
  | ECode c e' => (DCode c, Some e')
  | ESev s e' => (DSev s, Some e')
  | EHint h e' => (DHint h, Some e')
  | EDetail d e' => (DDetail d, Some e')
  | ESource f l fn e' => (DSource f l fn, Some e')
  | EConstraint c e' => (DConstraint c, Some e')
  end.

(* the chain of decorations from the outside in *)
Fixpoint decos (e : err) : list deco :=
  match e with
  | EBase _ => []
  | EWrap _ _ e' => decos e'
  | ECode c e' => DCode c :: decos e'
  | ESev s e' => DSev s :: decos e'
  | EHint h e' => DHint h :: decos e'
  | EDetail d e' => DDetail d :: decos e'
  | ESource f l fn e' => DSource f l fn :: decos e'
  | EConstraint c e' => DConstraint c :: decos e'
  end.

Fixpoint first_some {A} (sel : deco -> option A) (ds : list deco) : option A :=
  match ds with
  | [] => None
  | d :: r => match sel d with Some x => Some x | None => first_some sel r end
  end.

Definition outer_code e := first_some (fun d => match d with DCode c => Some c | _ => None end) (decos e).
Definition outer_sev e := first_some (fun d => match d with DSev c => Some c | _ => None end) (decos e).
Definition outer_hint e := first_some (fun d => match d with DHint c => Some c | _ => None end) (decos e).
Definition outer_detail e := first_some (fun d => match d with DDetail c => Some c | _ => None end) (decos e).
Definition outer_constraint e := first_some (fun d => match d with DConstraint c => Some c | _ => None end) (decos e).
Definition outer_source e := first_some (fun d => match d with DSource f l fn => Some (f, l, fn) | _ => None end) (decos e).

Definition or_empty (o : option bytes) : bytes := match o with Some b => b | None => [] end.
