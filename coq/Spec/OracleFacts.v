(* OracleFacts.v — the session model satisfies the executable reply-discipline
   oracle ([oracle_turns] of Spec/Oracles.v, the predicate evaluated on the logs
   observed on the implementation) for EVERY configuration without COPY handlers,
   every state and every list of client frames. *)
Require Import Wire.Bytes Spec.BackendSpec Spec.BackendSpecFacts Wire.Errors Wire.Framing Wire.Session
  Wire.SessionFacts Wire.CommandFacts Wire.RobustFacts Wire.Case Spec.Oracles.
From Coq Require Import String.
Local Open Scope string_scope.
Local Open Scope list_scope.
Local Open Scope Z_scope.

(* ---------- handler programs without COPY ---------- *)
Definition hop_nocopy (o : hop) : bool := match o with HCopyIn _ => false | _ => true end.
Definition stmt_nocopy (s : stmt) : bool := forallb hop_nocopy (s_prog s).
Definition cfg_nocopy (c : cfg) : Prop :=
  forall q ss, cfg_parse c q = POk ss -> forallb stmt_nocopy ss = true.

(* events of one command: neither a Consume marker, nor the end of the connection, nor a crash *)
Definition is_consume (e : ev) : bool := match e with Consume | Closed | Crash | OutOfFuel => true | _ => false end.
Definition no_consume (evs : list ev) : bool := forallb (fun e => negb (is_consume e)) evs.

(* DataRow* then at most one CommandComplete *)
Fixpoint shape_rc (ms : list bmsg) : bool :=
  match ms with
  | [] => true
  | BDataRow _ :: r => shape_rc r
  | [BComplete _] => true
  | _ => false
  end.

Lemma no_consume_app a b : no_consume (a ++ b) = no_consume a && no_consume b.
Proof. apply forallb_app. Qed.

Lemma outs_eq evs : Oracles.outs evs = SessionFacts.outs evs.
Proof. reflexivity. Qed.

Lemma run_op_nocopy c cols fmts o w fs tl evs w' fs' st :
  hop_nocopy o = true -> w_copy w = false ->
  run_op c cols fmts o w fs tl = (evs, w', fs', st) ->
  w_copy w' = false /\ fs' = fs /\ no_consume evs = true /\
  (SessionFacts.outs evs = [] \/
   (exists f, SessionFacts.outs evs = [BDataRow f] /\ w_closed w = false /\ w_closed w' = false) \/
   (exists t, SessionFacts.outs evs = [BComplete t] /\ w_closed w = false /\ w_closed w' = true)) /\
  (w_closed w = true -> w_closed w' = true).
Proof.
  intros Hn Hc H.
  destruct o as [vs| | |tag|f|]; cbn [run_op hop_nocopy] in *; try discriminate.
  - destruct (w_closed w) eqn:Ec.
    + injection H as <- <- <- <-. cbn. auto 10.
    + destruct (write_row (cfg_encode c) cols fmts vs) as [fields|e|]; injection H as <- <- <- <-; cbn; repeat split; auto; try (intros X; discriminate X).
      right. left. eexists. auto.
  - injection H as <- <- <- <-. cbn. auto 10.
  - destruct (w_closed w) eqn:Ec; [|destruct (negb (w_written w =? 0))]; injection H as <- <- <- <-; cbn; repeat split; auto; try (intros X; discriminate X).
  - destruct (w_closed w) eqn:Ec; injection H as <- <- <- <-; cbn; repeat split; auto; try (intros X; discriminate X).
    right. right. eexists. auto.
  - rewrite Hc in H. cbn in H. injection H as <- <- <- <-. cbn. auto 10.
Qed.

Lemma run_ops_nocopy c cols fmts stop : forall ops w fs tl evs w' fs' res,
  forallb hop_nocopy ops = true -> w_copy w = false ->
  run_ops c cols fmts stop ops w fs tl = (evs, w', fs', res) ->
  fs' = fs /\ no_consume evs = true /\
  (if w_closed w then SessionFacts.outs evs = [] else shape_rc (SessionFacts.outs evs) = true).
Proof.
  induction ops as [|o r IH]; intros w fs tl evs w' fs' res Hn Hc H; cbn [run_ops forallb] in *.
  - injection H as <- <- <- <-. cbn. destruct (w_closed w); auto.
  - apply andb_prop in Hn as [Hn1 Hn2].
    destruct (run_op c cols fmts o w fs tl) as [[[evs1 w1] fs1] st] eqn:E1.
    destruct (run_op_nocopy _ _ _ _ _ _ _ _ _ _ _ Hn1 Hc E1) as (C1 & F1 & N1 & S1 & K1). subst fs1.
    assert (Base : fs = fs /\ no_consume evs1 = true /\
                   (if w_closed w then SessionFacts.outs evs1 = [] else shape_rc (SessionFacts.outs evs1) = true)).
    { split; [reflexivity|]. split; [exact N1|].
      destruct S1 as [S1|[(f & S1 & O1 & O2)|(t & S1 & O1 & O2)]]; rewrite S1.
      - destruct (w_closed w); reflexivity.
      - rewrite O1. reflexivity.
      - rewrite O1. reflexivity. }
    assert (Step : forall evs2 w2 fs2 res2,
              run_ops c cols fmts stop r w1 fs tl = (evs2, w2, fs2, res2) ->
              fs2 = fs /\ no_consume (evs1 ++ evs2) = true /\
              (if w_closed w then SessionFacts.outs (evs1 ++ evs2) = [] else shape_rc (SessionFacts.outs (evs1 ++ evs2)) = true)).
    { intros evs2 w2 fs2 res2 E2. destruct (IH _ _ _ _ _ _ _ Hn2 C1 E2) as (F2 & N2 & S2).
      split; [exact F2|]. split; [rewrite no_consume_app, N1, N2; reflexivity|].
      rewrite outs_app.
      destruct S1 as [S1|[(f & S1 & O1 & O2)|(t & S1 & O1 & O2)]]; rewrite S1.
      - cbn [app]. destruct (w_closed w) eqn:Ew.
        + rewrite (K1 eq_refl) in S2. exact S2.
        + destruct (w_closed w1); [rewrite S2; reflexivity|exact S2].
      - rewrite O1. rewrite O2 in S2. cbn. exact S2.
      - rewrite O1. rewrite O2 in S2. rewrite S2. reflexivity. }
    destruct st.
    + destruct (run_ops c cols fmts stop r w1 fs tl) as [[[evs2 w2] fs2] res2] eqn:E2.
      injection H as <- <- <- <-. eapply Step; eauto.
    + destruct stop.
      * injection H as <- <- <- <-. exact Base.
      * destruct (run_ops c cols fmts false r w1 fs tl) as [[[evs2 w2] fs2] res2] eqn:E2.
        injection H as <- <- <- <-. eapply Step; eauto.
    + injection H as <- <- <- <-. exact Base.
Qed.

(* ---------- the state invariant: cached statements have no COPY handlers ---------- *)
Definition st_nocopy (st : sst) : Prop :=
  (forall n s, alist_get n (st_stmts st) = Some s -> stmt_nocopy s = true) /\
  (forall n p, alist_get n (st_portals st) = Some p -> stmt_nocopy (p_stmt p) = true).

Lemma alist_get_set_inv {A} (P : A -> Prop) k (v : A) l :
  P v -> (forall n x, alist_get n l = Some x -> P x) ->
  forall n x, alist_get n (alist_set k v l) = Some x -> P x.
Proof.
  intros Hv Hl n x H. destruct (bytes_eqb n k) eqn:E.
  - apply bytes_eqb_eq in E. subst n. rewrite alist_get_set_same in H. injection H as <-. exact Hv.
  - rewrite alist_get_set_other in H by exact E. eapply Hl; eauto.
Qed.
Lemma alist_get_del_inv {A} (P : A -> Prop) k (l : list (bytes * A)) :
  (forall n x, alist_get n l = Some x -> P x) ->
  forall n x, alist_get n (alist_del k l) = Some x -> P x.
Proof.
  intros Hl n x H. destruct (bytes_eqb n k) eqn:E.
  - apply bytes_eqb_eq in E. subst n. rewrite alist_get_del_same in H. discriminate.
  - rewrite alist_get_del_other in H by exact E. eapply Hl; eauto.
Qed.

(* ---------- the oracle's view of one turn ---------- *)
Definition tmatch (s : tstate) (st : sst) : Prop :=
  t_ok s = true /\ t_copy s = false /\ t_discard s = st_discard st.

Definition all_closed (cl : list ev) : bool := forallb is_closed_ev cl.

Lemma filter_plain evs : no_consume evs = true ->
  filter (fun e => negb (is_closed_ev e)) evs = evs.
Proof.
  induction evs as [|e r IH]; cbn [no_consume forallb filter]; [reflexivity|].
  intros H. apply andb_prop in H as [H1 H2]. destruct e; cbn in *; try discriminate; f_equal; apply IH; exact H2.
Qed.
Lemma filter_closed cl : all_closed cl = true ->
  filter (fun e => negb (is_closed_ev e)) cl = [].
Proof.
  induction cl as [|e r IH]; cbn [all_closed forallb filter]; [reflexivity|].
  intros H. apply andb_prop in H as [H1 H2]. rewrite H1. cbn. apply IH. exact H2.
Qed.
Lemma filter_turn evs cl : no_consume evs = true -> all_closed cl = true ->
  filter (fun e => negb (is_closed_ev e)) (evs ++ cl) = evs.
Proof. intros A B. rewrite filter_app, filter_plain, filter_closed, app_nil_r by assumption. reflexivity. Qed.

Lemma turn_sync s st body cl :
  tmatch s st -> all_closed cl = true ->
  tmatch (turn_step s (FMsg x53 body) ([Out ready] ++ cl)) (set_discard st false).
Proof.
  intros (A & B & C) Hc. unfold turn_step. rewrite filter_turn by (auto; reflexivity).
  destruct s as [d cp ok why]; cbn in A, B, C |- *. subst. destruct (st_discard st); cbn; repeat split.
Qed.

Lemma size_err_props max size :
  sqlstate_is (err_msg (Some (e_size_exceeded max size))) (bs "54000") = true /\
  severity_is (err_msg (Some (e_size_exceeded max size))) (bs "ERROR") = true.
Proof. split; reflexivity. Qed.

Lemma turn_discarded s st t body cl :
  tmatch s st -> all_closed cl = true -> st_discard st = true ->
  Byte.eqb t x53 = false -> Byte.eqb t x58 = false ->
  tmatch (turn_step s (FMsg t body) ([] ++ cl)) st.
Proof.
  intros (A & B & C) Hc D H1 H2. unfold turn_step. rewrite filter_turn by (auto; reflexivity).
  destruct s as [d cp ok why]; cbn in A, B, C |- *. subst. rewrite D, H1, H2. cbn. try rewrite D. repeat split; auto.
Qed.

Lemma turn_oversize c s st t size evs st' cl f :
  f = FOver t size None \/ f = FBad t size ->
  tmatch s st -> all_closed cl = true ->
  do_oversize c st t size = (evs, st') ->
  no_consume evs = true /\ tmatch (turn_step s f (evs ++ cl)) st' /\
  st_stmts st' = st_stmts st /\ st_portals st' = st_portals st.
Proof.
  intros Hf (A & B & C) Hc H. unfold do_oversize in H.
  pose proof (size_err_props (eff_limit (cfg_limit c)) size) as [P1 P2].
  assert (G : forall evs st', no_consume evs = true ->
            tmatch (turn_step s (FOver t size None) (evs ++ cl)) st' -> tmatch (turn_step s f (evs ++ cl)) st').
  { intros e0 s0 _ X. destruct Hf as [->| ->]; exact X. }
  destruct s as [d cp ok why]; cbn in A, B, C. subst.
  destruct (st_discard st && negb (Byte.eqb t x53)) eqn:E1.
  - injection H as <- <-. split; [reflexivity|]. split; [|auto]. apply G; [reflexivity|].
    unfold turn_step. rewrite filter_turn by (auto; reflexivity). cbn. rewrite E1. cbn.
    apply andb_prop in E1 as [E1a _]. unfold tmatch. cbn. rewrite E1a. repeat split.
  - destruct (is_ext t) eqn:E2.
    + unfold ext_err in H. injection H as <- <-. split; [reflexivity|]. split; [|auto]. apply G; [reflexivity|].
      unfold turn_step. rewrite filter_turn by (auto; reflexivity). cbn [frame_type t_ok t_copy t_discard negb].
      rewrite E1, E2. cbn [Oracles.outs flat_map app shape_one all_b forallb cbs filter is_cb existsb is_copyin].
      rewrite P1, P2. cbn. repeat split.
    + assert (X : forall d', (d' = if Byte.eqb t x53 then false else st_discard st) ->
                tmatch (turn_step {| t_discard := st_discard st; t_copy := false; t_ok := true; t_why := why |}
                          (FOver t size None)
                          ([Out (err_msg (Some (e_size_exceeded (eff_limit (cfg_limit c)) size))); Out ready] ++ cl))
                       (set_discard st d')).
      { intros d' Hd. unfold turn_step. rewrite filter_turn by (auto; reflexivity).
        cbn [frame_type t_ok t_copy t_discard negb]. rewrite E1, E2.
        cbn [Oracles.outs flat_map app shape_one all_b forallb cbs filter is_cb existsb is_copyin].
        rewrite P1, P2. cbn. unfold tmatch. cbn. repeat split.
        subst d'. destruct (Byte.eqb t x53); [reflexivity|]. cbn in E1. rewrite andb_true_r in E1. auto. }
      destruct (Byte.eqb t x53) eqn:E3; injection H as <- <-; (split; [reflexivity|]); (split; [|auto]); (apply G; [reflexivity|]).
      * apply X. reflexivity.
      * replace st with (set_discard st (st_discard st)) at 2 by (destruct st; reflexivity). apply X. reflexivity.
Qed.

Local Opaque err_fields.

Ltac tstep :=
  unfold turn_step; rewrite filter_turn by (auto; reflexivity);
  cbn [frame_type t_ok t_copy t_discard negb andb Byte.eqb].

(* a message whose body is malformed is answered by closing the connection *)
Lemma turn_malformed s st t body cl :
  tmatch s st -> all_closed cl = true ->
  st_discard st && negb (Byte.eqb t x53) && negb (Byte.eqb t x58) = false ->
  wf_client (FMsg t body) = false ->
  t_ok (turn_step s (FMsg t body) ([] ++ cl)) = true /\ t_copy (turn_step s (FMsg t body) ([] ++ cl)) = false.
Proof.
  intros (A & B & C) Hc D W. unfold turn_step. rewrite filter_turn by (auto; reflexivity).
  cbn [frame_type]. rewrite A, B, C, D, W. cbn. split; reflexivity.
Qed.

Lemma turn_parse c s st body evs st' k cl :
  cfg_nocopy c -> st_nocopy st -> tmatch s st -> all_closed cl = true -> st_discard st = false ->
  do_parse c st body = (evs, st', k) ->
  no_consume evs = true /\ st_nocopy st' /\
  (k = Continue -> tmatch (turn_step s (FMsg x50 body) (evs ++ cl)) st') /\
  (k = Stop -> evs = [] /\ wf_client (FMsg x50 body) = false).
Proof.
  intros Hcfg [I1 I2] (A & B & C) Hc D H. unfold do_parse in H.
  destruct s as [d cp ok why]; cbn in A, B, C. subst.
  destruct (take_cstr body) as [[name l1]|] eqn:E1; [|injection H as <- <- <-; repeat split; auto; try discriminate; cbn; rewrite E1; reflexivity].
  destruct (take_cstr l1) as [[q l2]|] eqn:E2; [|injection H as <- <- <-; repeat split; auto; try discriminate; cbn; rewrite E1, E2; reflexivity].
  destruct (p_u16 l2) as [x|] eqn:E3; [|injection H as <- <- <-; repeat split; auto; try discriminate; cbn; rewrite E1, E2, E3; reflexivity].
  assert (W : wf_client (FMsg x50 body) = true) by (cbn; rewrite E1, E2, E3; reflexivity).
  assert (ErrCase : forall e, no_consume [CbParse q; Out (err_msg (Some e))] = true /\
            tmatch (turn_step {| t_discard := st_discard st; t_copy := false; t_ok := true; t_why := why |}
                      (FMsg x50 body) ([CbParse q; Out (err_msg (Some e))] ++ cl)) (set_discard st true)).
  { intros e. split; [reflexivity|]. tstep. rewrite D, W. cbn. unfold tmatch. cbn. repeat split. }
  destruct (cfg_parse c q) as [e|ss] eqn:Ep.
  - unfold ext_err in H. injection H as <- <- <-. destruct (ErrCase e) as [X Y].
    split; [exact X|]. split; [split; assumption|]. split; [intros _; exact Y|discriminate].
  - destruct ss as [|s1 [|s2 r]].
    + unfold ext_err in H. injection H as <- <- <-. destruct (ErrCase e_undefined_stmt) as [X Y].
      split; [exact X|]. split; [split; assumption|]. split; [intros _; exact Y|discriminate].
    + injection H as <- <- <-. split; [reflexivity|]. split.
      * split; cbn [st_stmts st_portals]; [|exact I2].
        apply alist_get_set_inv; [|exact I1].
        pose proof (Hcfg _ _ Ep) as F. cbn in F. rewrite andb_true_r in F. exact F.
      * split; [|discriminate]. intros _. tstep. rewrite D, W. cbn. unfold tmatch. cbn. rewrite ?D. repeat split; auto.
    + unfold ext_err in H. injection H as <- <- <-. destruct (ErrCase e_multiple_stmts) as [X Y].
      split; [exact X|]. split; [split; assumption|]. split; [intros _; exact Y|discriminate].
Qed.

Ltac fin := unfold tmatch; cbn; repeat split; auto.

Lemma turn_bind s st body evs st' k cl :
  st_nocopy st -> tmatch s st -> all_closed cl = true -> st_discard st = false ->
  do_bind st body = (evs, st', k) ->
  no_consume evs = true /\ st_nocopy st' /\
  (k = Continue -> tmatch (turn_step s (FMsg x42 body) (evs ++ cl)) st') /\
  (k = Stop -> evs = [] /\ wf_client (FMsg x42 body) = false).
Proof.
  intros [I1 I2] (A & B & C) Hc D H. unfold do_bind in H.
  destruct s as [d cp ok why]; cbn in A, B, C. subst.
  destruct (decode_bind body) as [b|] eqn:E1;
    [|injection H as <- <- <-; repeat split; auto; try discriminate; cbn; rewrite E1; reflexivity].
  assert (W : wf_client (FMsg x42 body) = true) by (cbn; rewrite E1; reflexivity).
  destruct (alist_get (b_stmt b) (st_stmts st)) as [s0|] eqn:G.
  - injection H as <- <- <-. split; [reflexivity|]. split.
    + split; cbn [st_stmts st_portals]; [exact I1|].
      apply (alist_get_set_inv (fun p => stmt_nocopy (p_stmt p) = true)); [|exact I2]. cbn. eapply I1; eauto.
    + split; [|discriminate]. intros _. tstep. rewrite D, W. cbn. unfold tmatch. cbn. rewrite ?D. repeat split; auto.
  - unfold ext_err in H. injection H as <- <- <-. split; [reflexivity|]. split; [split; assumption|].
    split; [|discriminate]. intros _. tstep. rewrite D, W. fin.
Qed.

Lemma turn_describe s st body evs st' k cl :
  st_nocopy st -> tmatch s st -> all_closed cl = true -> st_discard st = false ->
  do_describe st body = (evs, st', k) ->
  no_consume evs = true /\ st_nocopy st' /\
  (k = Continue -> tmatch (turn_step s (FMsg x44 body) (evs ++ cl)) st') /\
  (k = Stop -> evs = [] /\ wf_client (FMsg x44 body) = false).
Proof.
  intros I (A & B & C) Hc D H. unfold do_describe in H.
  destruct s as [d cp ok why]; cbn in A, B, C. subst.
  destruct body as [|kd l1]; [injection H as <- <- <-; repeat split; auto; try discriminate; apply I|].
  destruct (take_cstr l1) as [[name l2]|] eqn:E1;
    [|injection H as <- <- <-; repeat split; auto; try discriminate; try apply I; cbn; rewrite E1; reflexivity].
  assert (W : wf_client (FMsg x44 (kd :: l1)) = true) by (cbn; rewrite E1; reflexivity).
  destruct (Byte.eqb kd x53) eqn:K1.
  - destruct (alist_get name (st_stmts st)) as [s0|] eqn:G.
    + injection H as <- <- <-. split; [reflexivity|]. split; [exact I|]. split; [|discriminate]. intros _.
      tstep. rewrite D, W. cbn [Oracles.outs flat_map app]. rewrite K1.
      unfold describe_cols. destruct (s_cols s0); unfold tmatch; cbn; rewrite ?D; repeat split; auto.
    + unfold ext_err in H. injection H as <- <- <-. split; [reflexivity|]. split; [exact I|].
      split; [|discriminate]. intros _. tstep. rewrite D, W. cbn [Oracles.outs flat_map app]. rewrite K1. fin.
  - destruct (Byte.eqb kd x50) eqn:K2.
    + destruct (alist_get name (st_portals st)) as [p|] eqn:G.
      * injection H as <- <- <-. split; [reflexivity|]. split; [exact I|]. split; [|discriminate]. intros _.
        tstep. rewrite D, W. cbn [Oracles.outs flat_map app]. rewrite K1, K2.
        unfold describe_cols. destruct (s_cols (p_stmt p)); unfold tmatch; cbn; rewrite ?D; repeat split; auto.
      * unfold ext_err in H. injection H as <- <- <-. split; [reflexivity|]. split; [exact I|].
        split; [|discriminate]. intros _. tstep. rewrite D, W. cbn [Oracles.outs flat_map app]. rewrite K1, K2. fin.
    + unfold ext_err in H. injection H as <- <- <-. split; [reflexivity|]. split; [exact I|].
      split; [|discriminate]. intros _. tstep. rewrite D, W. cbn [Oracles.outs flat_map app]. rewrite K1, K2. fin.
Qed.

Lemma turn_close s st body evs st' k cl :
  st_nocopy st -> tmatch s st -> all_closed cl = true -> st_discard st = false ->
  do_close st body = (evs, st', k) ->
  no_consume evs = true /\ st_nocopy st' /\
  (k = Continue -> tmatch (turn_step s (FMsg x43 body) (evs ++ cl)) st') /\
  (k = Stop -> evs = [] /\ wf_client (FMsg x43 body) = false).
Proof.
  intros I (A & B & C) Hc D H. unfold do_close in H. pose proof I as [I1 I2].
  destruct s as [d cp ok why]; cbn in A, B, C. subst.
  destruct body as [|kd l1]; [injection H as <- <- <-; repeat split; auto; try discriminate|].
  destruct (take_cstr l1) as [[name l2]|] eqn:E1;
    [|injection H as <- <- <-; repeat split; auto; try discriminate; cbn; rewrite E1; reflexivity].
  assert (W : wf_client (FMsg x43 (kd :: l1)) = true) by (cbn; rewrite E1; reflexivity).
  destruct (Byte.eqb kd x53) eqn:K1; [|destruct (Byte.eqb kd x50) eqn:K2].
  - injection H as <- <- <-. split; [reflexivity|]. split.
    + split; cbn [st_stmts st_portals]; [|exact I2]. apply alist_get_del_inv. exact I1.
    + split; [|discriminate]. intros _. tstep. rewrite D, W. unfold tmatch; cbn; rewrite ?D; repeat split; auto.
  - injection H as <- <- <-. split; [reflexivity|]. split.
    + split; cbn [st_stmts st_portals]; [exact I1|].
      apply (alist_get_del_inv (fun p => stmt_nocopy (p_stmt p) = true)). exact I2.
    + split; [|discriminate]. intros _. tstep. rewrite D, W. unfold tmatch; cbn; rewrite ?D; repeat split; auto.
  - unfold ext_err in H. injection H as <- <- <-. split; [reflexivity|]. split; [exact I|].
    split; [|discriminate]. intros _. tstep. rewrite D, W. fin.
Qed.

Lemma shape_rc_facts ms : shape_rc ms = true ->
  shape_execute ms = true /\ has_error ms = false /\ existsb is_copyin ms = false /\
  (forall e, shape_execute (ms ++ [BError e]) = true /\ has_error (ms ++ [BError e]) = true /\
             existsb is_copyin (ms ++ [BError e]) = false).
Proof.
  induction ms as [|m r IH]; [intros _; cbn; repeat split|].
  intros H. destruct m; cbn [shape_rc] in H; try discriminate.
  - destruct (IH H) as (A & B & C & D). cbn. repeat split; auto; apply D.
  - destruct r; [|discriminate]. cbn. auto.
Qed.

Lemma run_stmt_nocopy c s fmts params fs tl evs fs' res :
  stmt_nocopy s = true -> run_stmt c s fmts params fs tl = (evs, fs', res) ->
  fs' = fs /\ no_consume evs = true /\ shape_rc (Oracles.outs evs) = true /\
  exists evs0, evs = CbExec (s_id s) params :: evs0.
Proof.
  unfold run_stmt. intros N H.
  destruct (run_ops c (s_cols s) fmts (s_stop s) (s_prog s) w_init fs tl) as [[[evs0 w] fs0] r0] eqn:E.
  injection H as <- <- <-.
  destruct (run_ops_nocopy c (s_cols s) fmts (s_stop s) (s_prog s) w_init fs tl evs0 w fs0 r0 N (eq_refl : w_copy w_init = false) E) as (F & P & S). cbn in S.
  split; [exact F|]. split; [exact P|]. split; [exact S|]. eexists. reflexivity.
Qed.

Lemma turn_execute c s st body rest tl evs st' fs' k cl :
  st_nocopy st -> tmatch s st -> all_closed cl = true -> st_discard st = false ->
  do_execute c st body rest tl = (evs, st', fs', k) ->
  no_consume evs = true /\ st_nocopy st' /\
  (k = Continue -> fs' = rest /\ tmatch (turn_step s (FMsg x45 body) (evs ++ cl)) st') /\
  (k = Stop -> evs = [] /\ wf_client (FMsg x45 body) = false).
Proof.
  intros I (A & B & C) Hc D H. unfold do_execute in H. pose proof I as [I1 I2].
  destruct s as [d cp ok why]; cbn in A, B, C. subst.
  destruct (take_cstr body) as [[name l1]|] eqn:E1;
    [|injection H as <- <- <- <-; repeat split; auto; try discriminate; cbn; rewrite E1; reflexivity].
  destruct (p_u32 l1) as [x|] eqn:E2;
    [|injection H as <- <- <- <-; repeat split; auto; try discriminate; cbn; rewrite E1, E2; reflexivity].
  assert (W : wf_client (FMsg x45 body) = true) by (cbn; rewrite E1, E2; reflexivity).
  destruct (alist_get name (st_portals st)) as [p|] eqn:G.
  - destruct (run_stmt c (p_stmt p) (p_rfmts p) (p_params p) rest tl) as [[evs1 fs1] res] eqn:E.
    destruct (run_stmt_nocopy _ _ _ _ _ _ _ _ _ (I2 _ _ G) E) as (F & P & S & _). subst fs1.
    destruct (shape_rc_facts _ S) as (X1 & X2 & X3 & X4).
    assert (ErrCase : forall e, no_consume (evs1 ++ [Out (err_msg (Some e))]) = true /\
              tmatch (turn_step {| t_discard := st_discard st; t_copy := false; t_ok := true; t_why := why |}
                        (FMsg x45 body) ((evs1 ++ [Out (err_msg (Some e))]) ++ cl)) (set_discard st true)).
    { intros e. split; [rewrite no_consume_app, P; reflexivity|].
      assert (Y : no_consume (evs1 ++ [Out (err_msg (Some e))]) = true) by (rewrite no_consume_app, P; reflexivity).
      tstep. rewrite D, W.
      replace (Oracles.outs (evs1 ++ [Out (err_msg (Some e))])) with (Oracles.outs evs1 ++ [BError (err_fields (Some e))])
        by (unfold Oracles.outs; rewrite flat_map_app; reflexivity).
      destruct (X4 (err_fields (Some e))) as (Y1 & Y2 & Y3). rewrite Y1, Y2, Y3. fin. }
    destruct res.
    + injection H as <- <- <- <-. split; [exact P|]. split; [exact I|]. split; [|discriminate]. intros _.
      split; [reflexivity|]. tstep. rewrite D, W, X1, X2, X3. unfold tmatch; cbn; rewrite ?D; repeat split; auto.
    + unfold ext_err in H. injection H as <- <- <- <-. destruct (ErrCase e) as [Y1 Y2].
      split; [exact Y1|]. split; [exact I|]. split; [|discriminate]. intros _. split; [reflexivity|exact Y2].
    + unfold ext_err in H. injection H as <- <- <- <-. destruct (ErrCase e_panic) as [Y1 Y2].
      split; [exact Y1|]. split; [exact I|]. split; [|discriminate]. intros _. split; [reflexivity|exact Y2].
  - unfold ext_err in H. injection H as <- <- <- <-. split; [reflexivity|]. split; [exact I|].
    split; [|discriminate]. intros _. split; [reflexivity|]. tstep. rewrite D, W. fin.
Qed.

(* ---------- simple query ---------- *)
Lemma filter_none {A} (p : A -> bool) l : (forall x, In x l -> p x = false) -> filter p l = [].
Proof.
  induction l as [|a r IH]; intros H; cbn [filter]; [reflexivity|].
  rewrite (H a (or_introl eq_refl)). apply IH. intros x Hx. apply H. right. exact Hx.
Qed.

Lemma count_rev_zero (p q : bmsg -> bool) l :
  (forall m, p m = true -> q m = true) ->
  forallb (fun m => negb (q m)) l = true -> count p (rev l) = 0.
Proof.
  intros Hpq H. unfold count, lenZ. rewrite filter_none; [reflexivity|].
  intros x Hx. apply in_rev in Hx. rewrite forallb_forall in H. specialize (H x Hx).
  destruct (p x) eqn:E; [|reflexivity]. rewrite (Hpq _ E) in H. discriminate.
Qed.

Lemma ready_weaker m : Oracles.is_ready m = true -> SessionFacts.is_ready m = true.
Proof. destruct m; cbn; auto; discriminate. Qed.

Lemma shape_simple_cycle pre :
  no_ready pre = true ->
  (no_error pre = true \/ exists pre' e, pre = pre' ++ [BError e] /\ no_error pre' = true) ->
  shape_simple (pre ++ [ready]) = true.
Proof.
  intros Hn He. unfold shape_simple. rewrite rev_app_distr. cbn [rev app].
  rewrite (count_rev_zero Oracles.is_ready SessionFacts.is_ready pre ready_weaker Hn). cbn.
  destruct He as [He|(pre' & e & -> & He)].
  - destruct (rev pre) as [|x before'] eqn:R; [reflexivity|].
    assert (C : count Oracles.is_error (rev pre) = 0)
      by (apply (count_rev_zero Oracles.is_error SessionFacts.is_error); auto).
    rewrite R in C. unfold count, lenZ in *. cbn [filter] in C.
    destruct (Oracles.is_error x); cbn [List.length] in C; [lia|].
    destruct (List.length (filter Oracles.is_error before')); [reflexivity|lia].
  - rewrite rev_app_distr. cbn [rev app].
    rewrite (count_rev_zero Oracles.is_error SessionFacts.is_error pre'); auto.
Qed.

Lemma define_evs_plain cols fmts :
  no_consume (define_evs cols fmts) = true /\ existsb is_copyin (Oracles.outs (define_evs cols fmts)) = false.
Proof. destruct cols; cbn; auto. Qed.

Lemma existsb_app' {A} (p : A -> bool) a b : existsb p (a ++ b) = existsb p a || existsb p b.
Proof. apply existsb_app. Qed.

Lemma oouts_app a b : Oracles.outs (a ++ b) = Oracles.outs a ++ Oracles.outs b.
Proof. unfold Oracles.outs. apply flat_map_app. Qed.

Lemma run_stmts_nocopy c : text_safe c -> forall ss fs tl evs fs' crashed,
  forallb stmt_nocopy ss = true ->
  run_stmts c ss fs tl = (evs, fs', crashed) ->
  fs' = fs /\ no_consume evs = true /\ existsb is_copyin (Oracles.outs evs) = false.
Proof.
  intros Hts.
  induction ss as [|s r IH]; intros fs tl evs fs' crashed N H;
    pose proof (run_stmts_no_crash _ _ _ _ _ _ _ Hts H) as Hcr; cbn [run_stmts forallb] in *.
  - injection H as <- <- <-. cbn. auto.
  - apply andb_prop in N as [N1 N2].
    destruct (run_stmt c s [] [] fs tl) as [[evs1 fs1] res] eqn:E1.
    destruct (run_stmt_nocopy _ _ _ _ _ _ _ _ _ N1 E1) as (F1 & P1 & S1 & _). subst fs1.
    destruct (shape_rc_facts _ S1) as (_ & _ & X3 & _).
    destruct (define_evs_plain (s_cols s) []) as [D1 D2].
    destruct res.
    + destruct (run_stmts c r fs tl) as [[evs2 fs2] cr] eqn:E2.
      injection H as <- <- <-. destruct (IH _ _ _ _ _ N2 E2) as (F2 & P2 & C2).
      split; [exact F2|]. rewrite !no_consume_app, D1, P1, P2.
      rewrite !oouts_app, !existsb_app', D2, X3, C2. auto.
    + injection H as <- <- <-. split; [reflexivity|]. rewrite !no_consume_app, D1, P1.
      rewrite !oouts_app, !existsb_app', D2, X3. auto.
    + injection H as <- <- <-. discriminate Hcr.
Qed.

Lemma turn_query c s st body rest tl evs fs' k cl :
  cfg_nocopy c -> text_safe c -> tmatch s st -> all_closed cl = true -> st_discard st = false ->
  simple_query c body rest tl = (evs, fs', k) ->
  no_consume evs = true /\
  (k = Continue -> fs' = rest /\ tmatch (turn_step s (FMsg x51 body) (evs ++ cl)) st) /\
  (k = Stop -> evs = [] /\ wf_client (FMsg x51 body) = false).
Proof.
  intros Hcfg Hts (A & B & C) Hc D H.
  assert (Cyc : k = Continue -> no_consume evs = true -> existsb is_copyin (Oracles.outs evs) = false ->
                wf_client (FMsg x51 body) = true ->
                tmatch (turn_step s (FMsg x51 body) (evs ++ cl)) st).
  { intros Hk P NC W. destruct (simple_query_cycle _ _ _ _ _ _ _ H Hk) as (_ & pre & Ho & Hn & He).
    pose proof (shape_simple_cycle pre Hn He) as SS. rewrite <- Ho, <- outs_eq in SS.
    destruct s as [d cp ok why]; cbn in A, B, C. subst.
    tstep. rewrite D, W, NC, SS. unfold tmatch; cbn; rewrite ?D; repeat split; auto. }
  unfold simple_query in H.
  destruct (take_cstr body) as [[q r0]|] eqn:E1;
    [|injection H as <- <- <-; repeat split; auto; try discriminate; cbn; rewrite E1; reflexivity].
  assert (W : wf_client (FMsg x51 body) = true) by (cbn; rewrite E1; reflexivity).
  destruct (is_blank q).
  { injection H as <- <- <-. split; [reflexivity|]. split; [|discriminate]. intros _. split; [reflexivity|]. apply Cyc; auto. }
  destruct (cfg_parse c q) as [e|ss] eqn:Ep.
  { injection H as <- <- <-. split; [reflexivity|]. split; [|discriminate]. intros _. split; [reflexivity|]. apply Cyc; auto. }
  destruct ss as [|s1 r].
  { injection H as <- <- <-. split; [reflexivity|]. split; [|discriminate]. intros _. split; [reflexivity|]. apply Cyc; auto. }
  destruct (run_stmts c (s1 :: r) rest tl) as [[evs1 fs1] cr] eqn:E.
  destruct (run_stmts_nocopy _ Hts _ _ _ _ _ _ (Hcfg _ _ Ep) E) as (F & P & NC). subst fs1.
  pose proof (run_stmts_no_crash _ _ _ _ _ _ _ Hts E) as Hcr. subst cr.
  injection H as <- <- <-. split; [exact P|]. split; [|discriminate]. intros _. split; [reflexivity|].
  apply Cyc; auto.
Qed.

(* ---------- the remaining message types ---------- *)
Lemma turn_quiet s st t body cl :
  t = x48 \/ t = x64 \/ t = x63 \/ t = x66 ->
  tmatch s st -> all_closed cl = true -> st_discard st = false ->
  tmatch (turn_step s (FMsg t body) ([] ++ cl)) st.
Proof.
  intros Ht (A & B & C) Hc D. destruct s as [d cp ok why]; cbn in A, B, C. subst.
  destruct Ht as [->|[->|[->| ->]]]; tstep; rewrite D; unfold tmatch; cbn; rewrite ?D; repeat split; auto.
Qed.

Lemma turn_terminate s st body (term : option bool) :
  tmatch s st ->
  let evs := match term with None => [] | Some _ => [CbTerminate] end in
  let s' := turn_step s (FMsg x58 body) (evs ++ [Closed]) in
  t_ok s' = true /\ t_copy s' = false.
Proof.
  intros (A & B & C). destruct s as [d cp ok why]; cbn in A, B, C. subst.
  destruct term; cbn zeta; unfold turn_step;
    rewrite filter_turn by (auto; reflexivity); cbn [frame_type t_ok t_copy t_discard negb andb Byte.eqb];
    rewrite !andb_false_r; cbn; split; reflexivity.
Qed.

Lemma turn_unknown s st t body cl :
  tmatch s st -> all_closed cl = true ->
  st_discard st && negb (Byte.eqb t x53) && negb (Byte.eqb t x58) = false ->
  Byte.eqb t x51 = false -> Byte.eqb t x45 = false -> Byte.eqb t x50 = false -> Byte.eqb t x44 = false ->
  Byte.eqb t x53 = false -> Byte.eqb t x42 = false -> Byte.eqb t x48 = false ->
  Byte.eqb t x64 || Byte.eqb t x63 || Byte.eqb t x66 = false -> Byte.eqb t x43 = false -> Byte.eqb t x58 = false ->
  tmatch (turn_step s (FMsg t body) ([Out (err_msg (Some (e_unimplemented t))); Out ready] ++ cl)) st.
Proof.
  intros (A & B & C) Hc DD H51 H45 H50 H44 H53 H42 H48 Hdcf H43 H58.
  assert (D : st_discard st = false) by (rewrite H53, H58 in DD; cbn in DD; rewrite !andb_true_r in DD; exact DD).
  destruct s as [d cp ok why]; cbn in A, B, C. subst.
  unfold turn_step. rewrite filter_turn by (auto; reflexivity).
  cbn [frame_type t_ok t_copy t_discard negb wf_client].
  rewrite D, H51, H45, H50, H44, H53, H42, H48, H43, H58, Hdcf. cbn.
  unfold tmatch; cbn; rewrite ?D; repeat split; auto.
Qed.

(* ---------- one iteration of the command loop against one step of the oracle ---------- *)
Lemma tmatch_stop s st t body :
  tmatch s st -> st_discard st && negb (Byte.eqb t x53) && negb (Byte.eqb t x58) = false ->
  wf_client (FMsg t body) = false ->
  let s' := turn_step s (FMsg t body) ([] ++ [Closed]) in
  t_ok s' = true /\ t_copy s' = false /\ (Byte.eqb t x58 || negb (wf_client (FMsg t body)) = true).
Proof.
  intros M DD W. destruct (turn_malformed s st t body [Closed] M eq_refl DD W) as [X Y].
  cbv zeta. rewrite W, orb_true_r. auto.
Qed.

Lemma turn_cmd c s st f rest tl evs st' fs' k :
  cfg_nocopy c -> text_safe c -> st_nocopy st -> tmatch s st ->
  cmd c st f rest tl = (evs, st', fs', k) ->
  no_consume evs = true /\ st_nocopy st' /\
  (k = Continue -> fs' = rest /\ forall cl, all_closed cl = true -> tmatch (turn_step s f (evs ++ cl)) st') /\
  (k = Stop -> t_ok (turn_step s f (evs ++ [Closed])) = true /\ t_copy (turn_step s f (evs ++ [Closed])) = false /\
               (Byte.eqb (frame_type f) x58 || negb (wf_client f) = true)).
Proof.
  intros Hcfg Hts I M H. pose proof M as (A & B & C).
  destruct f as [t body|t size [r|]|t size|]; cbn [cmd] in H.
  - (* FMsg *)
    destruct (st_discard st && negb (Byte.eqb t x53) && negb (Byte.eqb t x58)) eqn:DD.
    { injection H as <- <- <- <-. apply andb_prop in DD as [DD D3]. apply andb_prop in DD as [D1 D2].
      apply negb_true_iff in D2, D3.
      split; [reflexivity|]. split; [exact I|]. split; [|discriminate]. intros _. split; [reflexivity|].
      intros cl Hc. apply turn_discarded; auto. }
    destruct (Byte.eqb t x51) eqn:T51.
    { apply Byte.byte_dec_bl in T51. subst t. cbn in DD. rewrite !andb_true_r in DD.
      destruct (simple_query c body rest tl) as [[evs0 fs0] k0] eqn:E. injection H as <- <- <- <-.
      assert (G : forall cl, all_closed cl = true -> _) by (intros cl Hc; exact (turn_query c s st body rest tl evs0 fs0 k0 cl Hcfg Hts M Hc DD E)).
      destruct (G [] eq_refl) as (P & _ & Q).
      split; [exact P|]. split; [exact I|]. split.
      - intros Hk. split; [apply (G [] eq_refl); exact Hk|]. intros cl Hc. apply (G cl Hc). exact Hk.
      - intros Hk. destruct (Q Hk) as [-> W]. apply (tmatch_stop s st); auto; cbn; rewrite !andb_true_r; exact DD. }
    destruct (Byte.eqb t x45) eqn:T45.
    { apply Byte.byte_dec_bl in T45. subst t. cbn in DD. rewrite !andb_true_r in DD.
      assert (G : forall cl, all_closed cl = true -> _) by (intros cl Hc; exact (turn_execute c s st body rest tl evs st' fs' k cl I M Hc DD H)).
      destruct (G [] eq_refl) as (P & I' & _ & Q).
      split; [exact P|]. split; [exact I'|]. split.
      - intros Hk. split; [apply (G [] eq_refl); exact Hk|]. intros cl Hc. apply (G cl Hc). exact Hk.
      - intros Hk. destruct (Q Hk) as [-> W]. apply (tmatch_stop s st); auto; cbn; rewrite !andb_true_r; exact DD. }
    destruct (Byte.eqb t x50) eqn:T50.
    { apply Byte.byte_dec_bl in T50. subst t. cbn in DD. rewrite !andb_true_r in DD.
      destruct (do_parse c st body) as [[evs0 st0] k0] eqn:E. injection H as <- <- <- <-.
      assert (G : forall cl, all_closed cl = true -> _) by (intros cl Hc; exact (turn_parse c s st body evs0 st0 k0 cl Hcfg I M Hc DD E)).
      destruct (G [] eq_refl) as (P & I' & _ & Q).
      split; [exact P|]. split; [exact I'|]. split.
      - intros Hk. split; [reflexivity|]. intros cl Hc. apply (G cl Hc). exact Hk.
      - intros Hk. destruct (Q Hk) as [-> W]. apply (tmatch_stop s st); auto; cbn; rewrite !andb_true_r; exact DD. }
    destruct (Byte.eqb t x44) eqn:T44.
    { apply Byte.byte_dec_bl in T44. subst t. cbn in DD. rewrite !andb_true_r in DD.
      destruct (do_describe st body) as [[evs0 st0] k0] eqn:E. injection H as <- <- <- <-.
      assert (G : forall cl, all_closed cl = true -> _) by (intros cl Hc; exact (turn_describe s st body evs0 st0 k0 cl I M Hc DD E)).
      destruct (G [] eq_refl) as (P & I' & _ & Q).
      split; [exact P|]. split; [exact I'|]. split.
      - intros Hk. split; [reflexivity|]. intros cl Hc. apply (G cl Hc). exact Hk.
      - intros Hk. destruct (Q Hk) as [-> W]. apply (tmatch_stop s st); auto; cbn; rewrite !andb_true_r; exact DD. }
    destruct (Byte.eqb t x53) eqn:T53.
    { apply Byte.byte_dec_bl in T53. subst t. injection H as <- <- <- <-.
      split; [reflexivity|]. split; [exact I|]. split; [|discriminate]. intros _. split; [reflexivity|].
      intros cl Hc. apply turn_sync; auto. }
    destruct (Byte.eqb t x42) eqn:T42.
    { apply Byte.byte_dec_bl in T42. subst t. cbn in DD. rewrite !andb_true_r in DD.
      destruct (do_bind st body) as [[evs0 st0] k0] eqn:E. injection H as <- <- <- <-.
      assert (G : forall cl, all_closed cl = true -> _) by (intros cl Hc; exact (turn_bind s st body evs0 st0 k0 cl I M Hc DD E)).
      destruct (G [] eq_refl) as (P & I' & _ & Q).
      split; [exact P|]. split; [exact I'|]. split.
      - intros Hk. split; [reflexivity|]. intros cl Hc. apply (G cl Hc). exact Hk.
      - intros Hk. destruct (Q Hk) as [-> W]. apply (tmatch_stop s st); auto; cbn; rewrite !andb_true_r; exact DD. }
    destruct (Byte.eqb t x48) eqn:T48.
    { apply Byte.byte_dec_bl in T48. subst t. cbn in DD. rewrite !andb_true_r in DD. injection H as <- <- <- <-.
      split; [reflexivity|]. split; [exact I|]. split; [|discriminate]. intros _. split; [reflexivity|].
      intros cl Hc. apply turn_quiet; auto. }
    destruct (Byte.eqb t x64 || Byte.eqb t x63 || Byte.eqb t x66) eqn:Tdcf.
    { injection H as <- <- <- <-.
      assert (Ht : t = x64 \/ t = x63 \/ t = x66).
      { destruct (Byte.eqb t x64) eqn:E1; [apply Byte.byte_dec_bl in E1; auto|].
        destruct (Byte.eqb t x63) eqn:E2; [apply Byte.byte_dec_bl in E2; auto|].
        destruct (Byte.eqb t x66) eqn:E3; [apply Byte.byte_dec_bl in E3; auto|discriminate]. }
      assert (D : st_discard st = false).
      { destruct Ht as [->|[->| ->]]; cbn in DD; rewrite ?andb_true_r in DD; exact DD. }
      split; [reflexivity|]. split; [exact I|]. split; [|discriminate]. intros _. split; [reflexivity|].
      intros cl Hc. apply turn_quiet; auto; tauto. }
    destruct (Byte.eqb t x43) eqn:T43.
    { apply Byte.byte_dec_bl in T43. subst t. cbn in DD. rewrite !andb_true_r in DD.
      destruct (do_close st body) as [[evs0 st0] k0] eqn:E. injection H as <- <- <- <-.
      assert (G : forall cl, all_closed cl = true -> _) by (intros cl Hc; exact (turn_close s st body evs0 st0 k0 cl I M Hc DD E)).
      destruct (G [] eq_refl) as (P & I' & _ & Q).
      split; [exact P|]. split; [exact I'|]. split.
      - intros Hk. split; [reflexivity|]. intros cl Hc. apply (G cl Hc). exact Hk.
      - intros Hk. destruct (Q Hk) as [-> W]. apply (tmatch_stop s st); auto; cbn; rewrite !andb_true_r; exact DD. }
    destruct (Byte.eqb t x58) eqn:T58.
    { apply Byte.byte_dec_bl in T58. subst t.
      assert (E : evs = match cfg_term c with None => [] | Some _ => [CbTerminate] end /\ st' = st /\ k = Stop).
      { destruct (cfg_term c); injection H as <- <- <- <-; auto. }
      destruct E as (-> & -> & ->).
      split; [destruct (cfg_term c); reflexivity|]. split; [exact I|]. split; [discriminate|]. intros _.
      destruct (turn_terminate s st body (cfg_term c) M) as [X Y]. split; [exact X|]. split; [exact Y|reflexivity]. }
    injection H as <- <- <- <-.
    split; [reflexivity|]. split; [exact I|]. split; [|discriminate]. intros _. split; [reflexivity|].
    intros cl Hc. apply turn_unknown; auto. rewrite T53, T58. exact DD.
  - (* FOver, truncated *)
    injection H as <- <- <- <-. split; [reflexivity|]. split; [exact I|]. split; [discriminate|]. intros _.
    unfold turn_step. rewrite A, B. cbn. rewrite ?orb_true_r. auto.
  - (* FOver *)
    destruct (do_oversize c st t size) as [evs0 st0] eqn:E. injection H as <- <- <- <-.
    assert (G : forall cl, all_closed cl = true -> _)
      by (intros cl Hc; exact (turn_oversize c s st t size evs0 st0 cl (FOver t size None) (or_introl eq_refl) M Hc E)).
    destruct (G [] eq_refl) as (P & _ & S1 & S2).
    split; [exact P|]. split; [destruct I as [I1 I2]; split; [rewrite S1; exact I1|rewrite S2; exact I2]|].
    split; [|discriminate]. intros _. split; [reflexivity|]. intros cl Hc. apply (G cl Hc).
  - (* FBad *)
    destruct (do_oversize c st t size) as [evs0 st0] eqn:E. injection H as <- <- <- <-.
    assert (G : forall cl, all_closed cl = true -> _)
      by (intros cl Hc; exact (turn_oversize c s st t size evs0 st0 cl (FBad t size) (or_intror eq_refl) M Hc E)).
    destruct (G [] eq_refl) as (P & _ & S1 & S2).
    split; [exact P|]. split; [destruct I as [I1 I2]; split; [rewrite S1; exact I1|rewrite S2; exact I2]|].
    split; [|discriminate]. intros _. split; [reflexivity|]. intros cl Hc. apply (G cl Hc).
  - (* FTail *)
    injection H as <- <- <- <-. split; [reflexivity|]. split; [exact I|]. split; [discriminate|]. intros _.
    unfold turn_step. rewrite A, B. cbn. rewrite ?orb_true_r. auto.
Qed.

(* ---------- the whole command loop ---------- *)
Lemma split_plain evs : forall cur r, no_consume evs = true ->
  split_consume cur (evs ++ r) = split_consume (rev evs ++ cur) r.
Proof.
  induction evs as [|e evs' IH]; intros cur r H; [reflexivity|].
  cbn [no_consume forallb] in H. apply andb_prop in H as [H1 H2].
  cbn [app rev]. rewrite <- app_assoc. cbn [app]. rewrite <- IH by exact H2.
  destruct e; cbn in H1; try discriminate; reflexivity.
Qed.

Definition endmark (fs : list frame) : list ev := match fs with [] => [Closed] | _ => [] end.
Lemma endmark_closed fs : all_closed (endmark fs) = true.
Proof. destruct fs; reflexivity. Qed.

Lemma loop_turns c tl : cfg_nocopy c -> text_safe c -> forall fuel st fs s pre,
  st_nocopy st -> tmatch s st -> no_consume pre = true -> (List.length fs < fuel)%nat ->
  exists ts, split_consume (rev pre) (loop fuel c st fs tl) = (pre ++ endmark fs) :: ts /\
    (match fs with [] => ts = [] | _ :: _ => ts <> [] end) /\
    t_ok (turn_fold s fs ts) = true /\ t_copy (turn_fold s fs ts) = false /\ early_end_ok fs ts = true.
Proof.
  intros Hcfg Hts. induction fuel as [|fuel IH]; intros st fs s pre I M P Hl; [lia|].
  destruct fs as [|f rest].
  - exists []. cbn [loop split_consume endmark]. cbn [rev]. rewrite rev_involutive. cbn.
    destruct M as (A & B & C). auto.
  - cbn [loop]. destruct (cmd c st f rest tl) as [[[evs st'] fs'] k] eqn:E.
    destruct (turn_cmd _ _ _ _ _ _ _ _ _ _ Hcfg Hts I M E) as (Pe & I' & KC & KS).
    destruct k.
    + destruct (KC eq_refl) as [-> G].
      specialize (G (endmark rest) (endmark_closed rest)).
      destruct (IH st' rest (turn_step s f (evs ++ endmark rest)) evs I' G Pe) as (ts' & S1 & S2 & S3 & S4 & S5);
        [cbn [List.length] in Hl; lia|].
      exists ((evs ++ endmark rest) :: ts').
      cbn [split_consume endmark]. rewrite rev_involutive, app_nil_r.
      rewrite split_plain by exact Pe. rewrite app_nil_r, S1.
      split; [reflexivity|]. split; [discriminate|]. cbn [turn_fold]. split; [exact S3|]. split; [exact S4|].
      destruct rest as [|f2 r2].
      * subst ts'. reflexivity.
      * destruct ts' as [|t2 tr]; [contradiction|]. exact S5.
    + destruct (KS eq_refl) as (X & Y & Z).
      exists [evs ++ [Closed]].
      cbn [split_consume endmark]. rewrite rev_involutive, app_nil_r.
      rewrite split_plain by exact Pe. rewrite app_nil_r. cbn [split_consume].
      cbn [rev]. rewrite rev_involutive. cbn [rev app].
      split; [reflexivity|]. split; [discriminate|]. cbn [turn_fold].
      assert (TF : forall x, turn_fold x rest [] = x) by (intros x; destruct rest; reflexivity).
      rewrite TF. split; [exact X|]. split; [exact Y|].
      cbn [early_end_ok]. destruct rest; [reflexivity|].
      unfold ends_closed. rewrite existsb_app. cbn. rewrite orb_true_r. exact Z.
Qed.

Definition crashp (e : ev) : bool := match e with Crash | OutOfFuel => true | _ => false end.
Lemma plain_no_crash evs : no_consume evs = true -> existsb crashp evs = false.
Proof.
  induction evs as [|e r IH]; [reflexivity|]. cbn [no_consume forallb existsb]. intros H.
  apply andb_prop in H as [H1 H2]. rewrite (IH H2). destruct e; cbn in *; try discriminate; reflexivity.
Qed.

Lemma loop_no_crash c tl : cfg_nocopy c -> text_safe c -> forall fuel st fs s,
  st_nocopy st -> tmatch s st -> (List.length fs < fuel)%nat ->
  existsb crashp (loop fuel c st fs tl) = false.
Proof.
  intros Hcfg Hts. induction fuel as [|fuel IH]; intros st fs s I M Hl; [lia|].
  destruct fs as [|f rest]; [reflexivity|].
  cbn [loop]. destruct (cmd c st f rest tl) as [[[evs st'] fs'] k] eqn:E.
  destruct (turn_cmd _ _ _ _ _ _ _ _ _ _ Hcfg Hts I M E) as (Pe & I' & KC & _).
  destruct k.
  - destruct (KC eq_refl) as [-> G]. cbn [existsb crashp]. rewrite existsb_app, (plain_no_crash _ Pe). cbn [orb].
    apply (IH st' rest (turn_step s f (evs ++ []))); [exact I'|apply G; reflexivity|cbn [List.length] in Hl; lia].
  - cbn [existsb crashp]. rewrite existsb_app, (plain_no_crash _ Pe). reflexivity.
Qed.

(* ---------- the whole connection ---------- *)
Lemma run_mws_plain : forall mws i, no_consume (fst (run_mws mws i)) = true.
Proof.
  induction mws as [|ok r IH]; intros i; cbn [run_mws]; [reflexivity|].
  destruct ok; [|reflexivity]. specialize (IH (i + 1)). destruct (run_mws r (i + 1)) as [evs res]. exact IH.
Qed.

Lemma auth_phase_plain c cparams s evs rest ok :
  auth_phase c cparams s = (evs, rest, ok) -> no_consume evs = true.
Proof.
  unfold auth_phase. intros H.
  destruct (cfg_auth c) as [validate|]; [|injection H as <- <- <-; reflexivity].
  destruct s as [|t [|a [|b [|c4 [|d r]]]]]; try (injection H as <- <- <-; reflexivity).
  destruct ((rd32 a b c4 d - 4 <? 0) || (rd32 a b c4 d - 4 >? eff_limit (cfg_limit c))); [injection H as <- <- <-; reflexivity|].
  destruct (takeZ (rd32 a b c4 d - 4) r) as [[body rest0]|]; [|injection H as <- <- <-; reflexivity].
  destruct (negb (Byte.eqb t x70)); [injection H as <- <- <-; reflexivity|].
  destruct (take_cstr body) as [[pw x]|]; [|injection H as <- <- <-; reflexivity].
  destruct (validate _ _ pw); injection H as <- <- <-; reflexivity.
Qed.

Lemma pstatus_plain l : no_consume (map (fun kv : bytes * bytes => Out (BParamStatus (fst kv) (snd kv))) l) = true.
Proof. induction l as [|x r IH]; [reflexivity|]. cbn. exact IH. Qed.

Lemma st_init_nocopy : st_nocopy st_init.
Proof. split; intros n x H; discriminate H. Qed.
Lemma t_init_match : tmatch t_init st_init.
Proof. repeat split. Qed.

(* the verdict of the oracle on the log of a connection whose command loop handles the frames [fs] *)
Definition verdict_ok (fs : list frame) (log : list ev) : Prop :=
  no_crash log = true /\
  match turns log with
  | _ :: ts => t_ok (turn_fold t_init fs ts) = true /\ t_copy (turn_fold t_init fs ts) = false /\ early_end_ok fs ts = true
  | [] => False
  end.

Lemma verdict_short fs pre : no_consume pre = true -> verdict_ok fs (pre ++ [Closed]).
Proof.
  intros P. unfold verdict_ok, no_crash, turns.
  rewrite existsb_app. change (existsb _ pre) with (existsb crashp pre). rewrite (plain_no_crash _ P). cbn [existsb orb negb].
  split; [reflexivity|]. rewrite split_plain by exact P. cbn [split_consume].
  destruct fs; cbn; auto.
Qed.

Lemma session_turns c after s : cfg_nocopy c -> text_safe c ->
  forall fs, (forall cparams aevs s', read_params (S (List.length after)) after = Some cparams ->
               auth_phase c cparams s = (aevs, s', true) -> fs = fst (frames (cfg_limit c) s')) ->
  verdict_ok fs (session c after s).
Proof.
  intros Hcfg Hts fs Hfs. unfold session.
  destruct (read_params (S (List.length after)) after) as [cparams|] eqn:Er; [|apply (verdict_short fs []); reflexivity].
  destruct (auth_phase c cparams s) as [[aevs s'] ok] eqn:Ea.
  pose proof (auth_phase_plain _ _ _ _ _ _ Ea) as Pa.
  destruct ok; cbn [negb]; [|apply verdict_short; exact Pa].
  specialize (Hfs _ _ _ eq_refl Ea).
  pose proof (run_mws_plain (cfg_mws c) 0) as Pm.
  destruct (run_mws (cfg_mws c) 0) as [mevs mok]. cbn [fst] in Pm.
  set (pevs := map (fun kv : bytes * bytes => Out (BParamStatus (fst kv) (snd kv))) (server_params c (param_get (bs "user") cparams))).
  assert (Pp : no_consume pevs = true) by apply pstatus_plain.
  destruct mok; cbn [negb].
  - destruct (frames (cfg_limit c) s') as [fs0 tl] eqn:Ef. cbn [fst] in Hfs. subst fs0.
    rewrite !app_assoc.
    set (pre := ((aevs ++ pevs) ++ mevs) ++ [Out ready]).
    assert (Ppre : no_consume pre = true) by (unfold pre; rewrite !no_consume_app, Pa, Pp, Pm; reflexivity).
    destruct (loop_turns c tl Hcfg Hts (S (List.length fs)) st_init fs t_init pre st_init_nocopy t_init_match Ppre (Nat.lt_succ_diag_r _))
      as (ts & S1 & _ & S3 & S4 & S5).
    unfold verdict_ok, no_crash, turns. rewrite existsb_app.
    change (existsb _ pre) with (existsb crashp pre). rewrite (plain_no_crash _ Ppre).
    change (existsb _ (loop _ c st_init fs tl)) with (existsb crashp (loop (S (List.length fs)) c st_init fs tl)).
    rewrite (loop_no_crash c tl Hcfg Hts _ _ _ _ st_init_nocopy t_init_match (Nat.lt_succ_diag_r _)).
    split; [reflexivity|]. rewrite split_plain by exact Ppre. rewrite app_nil_r, S1. auto.
  - rewrite !app_assoc. apply verdict_short. rewrite !no_consume_app, Pa, Pp, Pm. reflexivity.
Qed.

(* ---------- the oracle itself, on the model's log of a whole case ---------- *)
Definition case_nocopy (sc : scase) : bool :=
  forallb (fun e => match snd e with POk ss => forallb stmt_nocopy ss | PErr _ => true end) (sc_parse sc).

Lemma case_cfg_nocopy sc : case_nocopy sc = true -> cfg_nocopy (cfg_of_case sc).
Proof.
  unfold case_nocopy, cfg_nocopy. cbn [cfg_of_case cfg_parse]. unfold lookup_parse. intros H q ss.
  induction (sc_parse sc) as [|[k r] l IH]; cbn [alist_get]; [discriminate|].
  cbn [forallb snd] in H. apply andb_prop in H as [H1 H2].
  destruct (bytes_eqb q k); [intros ->; exact H1|apply IH; exact H2].
Qed.

Lemma case_text_safe sc : text_safe (cfg_of_case sc).
Proof.
  intros oid v. cbn [cfg_of_case cfg_encode]. unfold Codec.encode_value. destruct v; try discriminate; cbn [Z.eqb orb negb].
  all: try (destruct ((oid =? Codec.oid_text) || (oid =? Codec.oid_varchar)); discriminate).
  all: try (unfold Codec.enc_int; repeat match goal with |- context [if ?b then _ else _] => destruct b end; discriminate).
Qed.

Theorem oracle_turns_model sc :
  sc_auth sc = None -> case_nocopy sc = true ->
  (forall v after rest, start (cfg_of_case sc) (sc_raw sc) = Some (v, after, rest) -> v <> version_ssl) ->
  oracle_turns sc (run_case sc) = true.
Proof.
  intros Ha Hn Hssl.
  assert (V : verdict_ok (client_frames sc) (run_case sc)).
  { unfold run_case, serve.
    destruct (start (cfg_of_case sc) (sc_raw sc)) as [[[v after] rest]|] eqn:Es; [|apply (verdict_short _ []); reflexivity].
    destruct (v =? version_cancel); [apply (verdict_short _ []); reflexivity|].
    destruct (Z.eqb_spec v version_ssl) as [->|_]; [exfalso; eapply Hssl; eauto|].
    apply session_turns; [apply case_cfg_nocopy; exact Hn|apply case_text_safe|].
    intros cparams aevs s' _ Hauth. unfold auth_phase in Hauth. cbn [cfg_of_case cfg_auth] in Hauth. rewrite Ha in Hauth.
    injection Hauth as _ <-. unfold client_frames. unfold start in Es. cbn [cfg_of_case cfg_limit] in *.
    destruct (untyped (sc_limit sc) (sc_raw sc)) as [[body rest0]|]; [|discriminate].
    destruct (p_u32 body) as [[v0 after0]|]; [|discriminate]. injection Es as _ _ <-. rewrite Ha. reflexivity. }
  destruct V as [V1 V2]. unfold oracle_turns, turn_verdict. rewrite V1.
  destruct (turns (run_case sc)) as [|t0 ts]; [contradiction|].
  destruct V2 as (V2 & V3 & V4). rewrite V2, V3, V4. reflexivity.
Qed.

(* ====================================================================== *)
(* C05: the inside of a simple-query cycle — the model satisfies [cycle_ok] *)

(* the oracle's cycle state mirrors the result writer between two operations *)
Definition qmatch (q : qstate) (w : wstate) : Prop :=
  q_ok q = true /\ q_err q = false /\ q_exec q = true /\ q_pend q = 0 /\
  q_rows q = w_written w /\ q_closed q = w_closed w.

Lemma q_run_op c cols fmts o w fs tl evs w' fs' st q :
  hop_nocopy o = true -> w_copy w = false -> qmatch q w ->
  run_op c cols fmts o w fs tl = (evs, w', fs', st) ->
  qmatch (fold_left q_step evs q) w'.
Proof.
  intros Hn Hc (A & B & C & D & E & F) H.
  destruct q as [qe qx qr qc qp qo]; cbn in A, B, C, D, E, F. subst.
  destruct o as [vs| | |tag|f|]; cbn [run_op hop_nocopy] in *; try discriminate.
  - destruct (w_closed w) eqn:Ec.
    + injection H as <- <- <- <-. cbn. unfold qmatch. cbn. rewrite ?Ec. auto 10.
    + destruct (write_row (cfg_encode c) cols fmts vs) as [fields|e|]; injection H as <- <- <- <-; cbn;
        unfold qmatch; cbn; rewrite ?Ec; cbn; auto 10.
  - injection H as <- <- <- <-. cbn. rewrite Z.eqb_refl. cbn. unfold qmatch. cbn. auto 10.
  - destruct (w_closed w) eqn:Ec; [|destruct (negb (w_written w =? 0)) eqn:Ew]; injection H as <- <- <- <-; cbn;
      unfold qmatch; cbn; rewrite ?Ec, ?Ew; cbn; auto 10.
    apply negb_false_iff in Ew. apply Z.eqb_eq in Ew. rewrite Ew. auto 10.
  - destruct (w_closed w) eqn:Ec; injection H as <- <- <- <-; cbn; unfold qmatch; cbn; rewrite ?Ec; cbn; auto 10.
  - rewrite Hc in H. cbn in H. injection H as <- <- <- <-. cbn. unfold qmatch. cbn. auto 10.
Qed.

Lemma q_run_ops c cols fmts stop : forall ops w fs tl evs w' fs' res q,
  forallb hop_nocopy ops = true -> w_copy w = false -> qmatch q w ->
  run_ops c cols fmts stop ops w fs tl = (evs, w', fs', res) ->
  qmatch (fold_left q_step evs q) w'.
Proof.
  induction ops as [|o r IH]; intros w fs tl evs w' fs' res q Hn Hc M H; cbn [run_ops forallb] in *.
  - injection H as <- <- <- <-. exact M.
  - apply andb_prop in Hn as [Hn1 Hn2].
    destruct (run_op c cols fmts o w fs tl) as [[[evs1 w1] fs1] st] eqn:E1.
    pose proof (q_run_op _ _ _ _ _ _ _ _ _ _ _ _ Hn1 Hc M E1) as M1.
    destruct (run_op_nocopy _ _ _ _ _ _ _ _ _ _ _ Hn1 Hc E1) as (C1 & _).
    destruct st.
    + destruct (run_ops c cols fmts stop r w1 fs1 tl) as [[[evs2 w2] fs2] res2] eqn:E2.
      injection H as <- <- <- <-. rewrite fold_left_app. eapply IH; eauto.
    + destruct stop.
      * injection H as <- <- <- <-. exact M1.
      * destruct (run_ops c cols fmts false r w1 fs1 tl) as [[[evs2 w2] fs2] res2] eqn:E2.
        injection H as <- <- <- <-. rewrite fold_left_app. eapply IH; eauto.
    + injection H as <- <- <- <-. exact M1.
Qed.

(* between statements: no error reported yet, nothing pending *)
Definition qpre (q : qstate) : Prop := q_ok q = true /\ q_err q = false /\ q_pend q = 0.

Lemma qmatch_pre q w : qmatch q w -> qpre q.
Proof. intros (A & B & C & D & _). repeat split; assumption. Qed.

Lemma q_run_stmt c s fmts params fs tl evs fs' res q :
  stmt_nocopy s = true -> qpre q ->
  run_stmt c s fmts params fs tl = (evs, fs', res) ->
  qpre (fold_left q_step evs q).
Proof.
  unfold run_stmt. intros N (A & B & C) H.
  destruct (run_ops c (s_cols s) fmts (s_stop s) (s_prog s) w_init fs tl) as [[[evs0 w] fs0] r0] eqn:E.
  injection H as <- <- <-. cbn [fold_left].
  apply (qmatch_pre _ w).
  refine (q_run_ops c (s_cols s) fmts (s_stop s) (s_prog s) w_init fs tl evs0 w fs0 r0 _ N (eq_refl : w_copy w_init = false) _ E).
  destruct q as [qe qx qr qc qp qo]; cbn in A, B, C. subst. cbn. repeat split.
Qed.

Lemma q_define cols fmts q : qpre q -> qpre (fold_left q_step (define_evs cols fmts) q).
Proof.
  intros (A & B & C). destruct cols; [repeat split; assumption|].
  destruct q as [qe qx qr qc qp qo]; cbn in A, B, C. subst. cbn. repeat split.
Qed.

Lemma q_run_stmts c : text_safe c -> forall ss fs tl evs fs' crashed q,
  forallb stmt_nocopy ss = true -> qpre q ->
  run_stmts c ss fs tl = (evs, fs', crashed) ->
  q_ok (fold_left q_step evs q) = true.
Proof.
  intros Hts. induction ss as [|s r IH]; intros fs tl evs fs' crashed q N Q H;
    pose proof (run_stmts_no_crash _ _ _ _ _ _ _ Hts H) as Hcr; cbn [run_stmts forallb] in *.
  - injection H as <- <- <-. destruct Q as (A & B & C).
    destruct q as [qe qx qr qc qp qo]; cbn in A, B, C. subst. reflexivity.
  - apply andb_prop in N as [N1 N2].
    destruct (run_stmt c s [] [] fs tl) as [[evs1 fs1] res] eqn:E1.
    pose proof (q_run_stmt _ _ _ _ _ _ _ _ _ _ N1 (q_define (s_cols s) [] q Q) E1) as Q1.
    destruct res.
    + destruct (run_stmts c r fs1 tl) as [[evs2 fs2] cr] eqn:E2.
      injection H as <- <- <-. rewrite !fold_left_app. eapply IH; eauto.
    + injection H as <- <- <-. rewrite !fold_left_app.
      destruct Q1 as (A & B & C).
      destruct (fold_left q_step evs1 (fold_left q_step (define_evs (s_cols s) []) q)) as [qe qx qr qc qp qo];
        cbn in A, B, C. subst. reflexivity.
    + injection H as <- <- <-. discriminate Hcr.
Qed.

Definition not_emptyq (m : bmsg) : bool := match m with BEmptyQuery => false | _ => true end.
Lemma handler_not_emptyq ms : forallb handler_msg ms = true -> forallb not_emptyq ms = true.
Proof.
  induction ms as [|m r IH]; [reflexivity|]. cbn [forallb]. intros H. apply andb_prop in H as [H1 H2].
  rewrite (IH H2). destruct m; cbn in *; try discriminate; reflexivity.
Qed.

Lemma run_stmts_not_emptyq c : forall ss fs tl evs fs' crashed,
  run_stmts c ss fs tl = (evs, fs', crashed) -> forallb not_emptyq (Oracles.outs evs) = true.
Proof.
  induction ss as [|s r IH]; intros fs tl evs fs' crashed H; cbn [run_stmts] in H.
  - injection H as <- <- <-. reflexivity.
  - destruct (run_stmt c s [] [] fs tl) as [[evs1 fs1] res] eqn:E1.
    destruct (run_stmt_spec _ _ _ _ _ _ _ _ _ E1) as (A1 & _).
    pose proof (handler_not_emptyq _ A1) as N1. rewrite <- outs_eq in N1.
    assert (D : forallb not_emptyq (Oracles.outs (define_evs (s_cols s) [])) = true) by (destruct (s_cols s); reflexivity).
    destruct res.
    + destruct (run_stmts c r fs1 tl) as [[evs2 fs2] cr] eqn:E2.
      injection H as <- <- <-. rewrite !oouts_app, !forallb_app, D, N1, (IH _ _ _ _ _ E2). reflexivity.
    + injection H as <- <- <-. rewrite !oouts_app, !forallb_app, D, N1. reflexivity.
    + injection H as <- <- <-. rewrite !oouts_app, !forallb_app, D, N1. reflexivity.
Qed.

Lemma not_emptyq_existsb l : forallb not_emptyq l = true ->
  existsb (fun m : bmsg => match m with BEmptyQuery => true | _ => false end) l = false.
Proof.
  induction l as [|m r IH]; [reflexivity|]. cbn [forallb existsb]. intros H. apply andb_prop in H as [N1 N2].
  rewrite (IH N2). destruct m; cbn in *; try discriminate; reflexivity.
Qed.

(* the events of an answered simple Query pass the oracle's cycle grammar *)
Lemma query_cycle_ok c body rest tl evs fs' :
  cfg_nocopy c -> text_safe c ->
  simple_query c body rest tl = (evs, fs', Continue) ->
  cycle_ok evs = true.
Proof.
  intros Hcfg Hts H.
  destruct (simple_query_cycle _ _ _ _ _ _ _ H eq_refl) as (_ & pre & Ho & Hn & He).
  pose proof (shape_simple_cycle pre Hn He) as SS. rewrite <- Ho, <- outs_eq in SS.
  unfold simple_query in H.
  destruct (take_cstr body) as [[q r0]|]; [|discriminate].
  destruct (is_blank q); [injection H as <- <-; reflexivity|].
  destruct (cfg_parse c q) as [e|ss] eqn:Ep; [injection H as <- <-; reflexivity|].
  destruct ss as [|s1 r]; [injection H as <- <-; reflexivity|].
  destruct (run_stmts c (s1 :: r) rest tl) as [[evs1 fs1] cr] eqn:E.
  pose proof (run_stmts_no_crash _ _ _ _ _ _ _ Hts E) as Hcr. subst cr.
  injection H as <- <-. unfold cycle_ok.
  rewrite (q_run_stmts c Hts _ _ _ _ _ _ q0 (Hcfg _ _ Ep) (conj eq_refl (conj eq_refl eq_refl)) E).
  rewrite SS. cbn [andb].
  change (Oracles.outs (CbParse q :: evs1)) with (Oracles.outs evs1).
  rewrite (not_emptyq_existsb _ (run_stmts_not_emptyq _ _ _ _ _ _ _ E)). reflexivity.
Qed.

(* ---------- the turns of the loop, one per frame handled, as a relation ---------- *)
Inductive run_rel (c : cfg) (tl : rderr) : sst -> list frame -> list (list ev) -> Prop :=
| rr_nil st : run_rel c tl st [] []
| rr_stop st f rest evs st' fs' :
    cmd c st f rest tl = (evs, st', fs', Stop) -> no_consume evs = true ->
    run_rel c tl st (f :: rest) [evs ++ [Closed]]
| rr_cont st f rest evs st' ts :
    cmd c st f rest tl = (evs, st', rest, Continue) -> no_consume evs = true -> st_nocopy st' ->
    run_rel c tl st' rest ts ->
    run_rel c tl st (f :: rest) ((evs ++ endmark rest) :: ts).

Definition t_of (st : sst) : tstate := {| t_discard := st_discard st; t_copy := false; t_ok := true; t_why := 0 |}.
Lemma t_of_match st : tmatch (t_of st) st.
Proof. repeat split. Qed.

Lemma loop_run_rel c tl : cfg_nocopy c -> text_safe c -> forall fuel st fs pre,
  st_nocopy st -> no_consume pre = true -> (List.length fs < fuel)%nat ->
  exists ts, split_consume (rev pre) (loop fuel c st fs tl) = (pre ++ endmark fs) :: ts /\ run_rel c tl st fs ts.
Proof.
  intros Hcfg Hts. induction fuel as [|fuel IH]; intros st fs pre I P Hl; [lia|].
  destruct fs as [|f rest].
  - exists []. cbn [loop split_consume endmark]. cbn [rev]. rewrite rev_involutive. split; [reflexivity|constructor].
  - cbn [loop]. destruct (cmd c st f rest tl) as [[[evs st'] fs'] k] eqn:E.
    destruct (turn_cmd _ _ _ _ _ _ _ _ _ _ Hcfg Hts I (t_of_match st) E) as (Pe & I' & KC & _).
    destruct k.
    + destruct (KC eq_refl) as [-> _].
      destruct (IH st' rest evs I' Pe) as (ts' & S1 & S2); [cbn [List.length] in Hl; lia|].
      exists ((evs ++ endmark rest) :: ts').
      cbn [split_consume endmark]. rewrite rev_involutive, app_nil_r.
      rewrite split_plain by exact Pe. rewrite app_nil_r, S1.
      split; [reflexivity|]. econstructor; eauto.
    + exists [evs ++ [Closed]].
      cbn [split_consume endmark]. rewrite rev_involutive, app_nil_r.
      rewrite split_plain by exact Pe. rewrite app_nil_r. cbn [split_consume].
      cbn [rev]. rewrite rev_involutive.
      split; [reflexivity|]. econstructor; eauto.
Qed.

Lemma cycles_nil fs : cycles_ok fs [] = true.
Proof. destruct fs as [|[] ?]; reflexivity. Qed.

Lemma run_rel_cycles c tl : cfg_nocopy c -> text_safe c -> forall st fs ts,
  st_nocopy st -> run_rel c tl st fs ts -> cycles_ok fs ts = true.
Proof.
  intros Hcfg Hts st fs ts I R. induction R as [st|st f rest evs st' fs' E P|st f rest evs st' ts E P I' R IH].
  - reflexivity.
  - (* the connection ends with this frame *)
    destruct f as [t body| | |]; cbn [cycles_ok]; rewrite cycles_nil; try reflexivity. rewrite andb_true_r.
    destruct (Byte.eqb t x51) eqn:T; [|reflexivity]. apply Byte.byte_dec_bl in T. subst t.
    cbn [cmd] in E. destruct (st_discard st && negb (Byte.eqb x51 x53) && negb (Byte.eqb x51 x58)) eqn:DD; [discriminate|].
    cbn in DD. rewrite !andb_true_r in DD.
    replace (Byte.eqb x51 x51) with true in E by reflexivity.
    destruct (simple_query c body rest tl) as [[evs0 fs0] k0] eqn:Q. injection E as <- <- <- ->.
    destruct (turn_query c (t_of st) st body rest tl evs0 fs0 Stop [] Hcfg Hts (t_of_match st) eq_refl DD Q) as (_ & _ & X).
    destruct (X eq_refl) as [_ W]. rewrite W. reflexivity.
  - specialize (IH I').
    destruct f as [t body| | |]; cbn [cycles_ok]; try exact IH. rewrite IH, andb_true_r.
    destruct (Byte.eqb t x51) eqn:T; [|reflexivity]. apply Byte.byte_dec_bl in T. subst t.
    rewrite filter_turn by (auto; apply endmark_closed).
    cbn [cmd] in E. destruct (st_discard st && negb (Byte.eqb x51 x53) && negb (Byte.eqb x51 x58)) eqn:DD.
    { injection E as <- <- . match goal with |- (if ?b then _ else _) = _ => destruct b end; reflexivity. }
    replace (Byte.eqb x51 x51) with true in E by reflexivity.
    destruct (simple_query c body rest tl) as [[evs0 fs0] k0] eqn:Q. injection E as <- <- <- ->.
    pose proof (query_cycle_ok c body _ tl evs0 _ Hcfg Hts Q) as CY.
    match goal with |- (if ?b then _ else _) = _ => destruct b end; [|reflexivity]. destruct evs0; [reflexivity|exact CY].
Qed.

Definition cycles_verdict (fs : list frame) (log : list ev) : Prop :=
  match turns log with _ :: ts => cycles_ok fs ts = true | [] => False end.

Lemma cycles_short fs pre : no_consume pre = true -> cycles_verdict fs (pre ++ [Closed]).
Proof.
  intros P. unfold cycles_verdict, turns. rewrite split_plain by exact P. cbn [split_consume]. apply cycles_nil.
Qed.

Lemma session_cycles c after s : cfg_nocopy c -> text_safe c ->
  forall fs, (forall cparams aevs s', read_params (S (List.length after)) after = Some cparams ->
               auth_phase c cparams s = (aevs, s', true) -> fs = fst (frames (cfg_limit c) s')) ->
  cycles_verdict fs (session c after s).
Proof.
  intros Hcfg Hts fs Hfs. unfold session.
  destruct (read_params (S (List.length after)) after) as [cparams|] eqn:Er; [|apply (cycles_short fs []); reflexivity].
  destruct (auth_phase c cparams s) as [[aevs s'] ok] eqn:Ea.
  pose proof (auth_phase_plain _ _ _ _ _ _ Ea) as Pa.
  destruct ok; cbn [negb]; [|apply cycles_short; exact Pa].
  specialize (Hfs _ _ _ eq_refl Ea).
  pose proof (run_mws_plain (cfg_mws c) 0) as Pm.
  destruct (run_mws (cfg_mws c) 0) as [mevs mok]. cbn [fst] in Pm.
  set (pevs := map (fun kv : bytes * bytes => Out (BParamStatus (fst kv) (snd kv))) (server_params c (param_get (bs "user") cparams))).
  assert (Pp : no_consume pevs = true) by apply pstatus_plain.
  destruct mok; cbn [negb].
  - destruct (frames (cfg_limit c) s') as [fs0 tl] eqn:Ef. cbn [fst] in Hfs. subst fs0.
    rewrite !app_assoc.
    set (pre := ((aevs ++ pevs) ++ mevs) ++ [Out ready]).
    assert (Ppre : no_consume pre = true) by (unfold pre; rewrite !no_consume_app, Pa, Pp, Pm; reflexivity).
    destruct (loop_run_rel c tl Hcfg Hts (S (List.length fs)) st_init fs pre st_init_nocopy Ppre (Nat.lt_succ_diag_r _))
      as (ts & S1 & S2).
    unfold cycles_verdict, turns. rewrite split_plain by exact Ppre. rewrite app_nil_r, S1.
    eapply run_rel_cycles; eauto. exact st_init_nocopy.
  - rewrite !app_assoc. apply cycles_short. rewrite !no_consume_app, Pa, Pp, Pm. reflexivity.
Qed.

Theorem oracle_C05_model sc :
  sc_auth sc = None -> case_nocopy sc = true ->
  (forall v after rest, start (cfg_of_case sc) (sc_raw sc) = Some (v, after, rest) -> v <> version_ssl) ->
  oracle_C05 sc (run_case sc) = true.
Proof.
  intros Ha Hn Hssl. unfold oracle_C05. rewrite (oracle_turns_model sc Ha Hn Hssl). cbn [andb].
  destruct (t_copy (turn_verdict sc (run_case sc))); [reflexivity|].
  assert (V : cycles_verdict (client_frames sc) (run_case sc)).
  { unfold run_case, serve.
    destruct (start (cfg_of_case sc) (sc_raw sc)) as [[[v after] rest]|] eqn:Es; [|apply (cycles_short _ []); reflexivity].
    destruct (v =? version_cancel); [apply (cycles_short _ []); reflexivity|].
    destruct (Z.eqb_spec v version_ssl) as [->|_]; [exfalso; eapply Hssl; eauto|].
    apply session_cycles; [apply case_cfg_nocopy; exact Hn|apply case_text_safe|].
    intros cparams aevs s' _ Hauth. unfold auth_phase in Hauth. cbn [cfg_of_case cfg_auth] in Hauth. rewrite Ha in Hauth.
    injection Hauth as _ <-. unfold client_frames. unfold start in Es. cbn [cfg_of_case cfg_limit] in *.
    destruct (untyped (sc_limit sc) (sc_raw sc)) as [[body rest0]|]; [|discriminate].
    destruct (p_u32 body) as [[v0 after0]|]; [|discriminate]. injection Es as _ _ <-. rewrite Ha. reflexivity. }
  unfold cycles_verdict in V. destruct (turns (run_case sc)) as [|t0 ts]; [reflexivity|exact V].
Qed.

(* ====================================================================== *)
(* with password authentication: the frames the session handles are the ones the
   oracle reads off the client's byte stream behind the password message *)
Lemma skipn_app_length {A} (a b : list A) : skipn (List.length a) (a ++ b) = b.
Proof. induction a as [|x a IH]; [reflexivity|exact IH]. Qed.

Lemma frames_fuel_msg f L t a b c4 d r body rest :
  (rd32 a b c4 d - 4 <? 0) = false -> (rd32 a b c4 d - 4 >? eff_limit L) = false ->
  takeZ (rd32 a b c4 d - 4) r = Some (body, rest) ->
  fst (frames_fuel (S f) L (t :: a :: b :: c4 :: d :: r)) = FMsg t body :: fst (frames_fuel f L rest).
Proof.
  intros E1 E2 E3. cbn [frames_fuel]. rewrite E1, E2, E3. destruct (frames_fuel f L rest). reflexivity.
Qed.

Lemma auth_rest c validate cparams s aevs s' :
  cfg_auth c = Some validate -> auth_phase c cparams s = (aevs, s', true) ->
  exists t body fs0, fst (frames (cfg_limit c) s) = FMsg t body :: fs0 /\ skipn (5 + List.length body) s = s'.
Proof.
  unfold auth_phase. intros Hv H. rewrite Hv in H.
  destruct s as [|t [|a [|b [|c4 [|d r]]]]]; try discriminate.
  destruct ((rd32 a b c4 d - 4 <? 0) || (rd32 a b c4 d - 4 >? eff_limit (cfg_limit c))) eqn:E1; [discriminate|].
  destruct (takeZ (rd32 a b c4 d - 4) r) as [[body rest0]|] eqn:E2; [|discriminate].
  destruct (negb (Byte.eqb t x70)); [discriminate|].
  destruct (take_cstr body) as [[pw x]|]; [|discriminate].
  destruct (validate _ _ pw); try discriminate. injection H as _ <-.
  apply orb_false_iff in E1 as [E1a E1b].
  exists t, body. unfold frames. cbn [List.length].
  rewrite (frames_fuel_msg _ _ t a b c4 d r body rest0 E1a E1b E2). eexists. split; [reflexivity|].
  apply takeZ_inv in E2 as [-> _]. cbn [skipn plus]. apply skipn_app_length.
Qed.

Lemma case_frames sc v after rest cparams aevs s' :
  start (cfg_of_case sc) (sc_raw sc) = Some (v, after, rest) ->
  auth_phase (cfg_of_case sc) cparams rest = (aevs, s', true) ->
  client_frames sc = fst (frames (cfg_limit (cfg_of_case sc)) s').
Proof.
  intros Es Hauth. unfold client_frames. unfold start in Es. cbn [cfg_of_case cfg_limit] in *.
  destruct (untyped (sc_limit sc) (sc_raw sc)) as [[body rest0]|]; [|discriminate].
  destruct (p_u32 body) as [[v0 after0]|]; [|discriminate]. injection Es as _ _ <-.
  destruct (sc_auth sc) as [[m pw]|] eqn:Ha.
  - destruct (auth_rest (cfg_of_case sc) (validator m pw) cparams rest0 aevs s') as (t & b & fs0 & F & S); [|exact Hauth|].
    { cbn [cfg_of_case cfg_auth]. rewrite Ha. reflexivity. }
    cbn [cfg_of_case cfg_limit] in F. destruct (frames (sc_limit sc) rest0) as [fl tl]. cbn [fst] in F. subst fl.
    rewrite S. reflexivity.
  - unfold auth_phase in Hauth. cbn [cfg_of_case cfg_auth] in Hauth. rewrite Ha in Hauth.
    injection Hauth as _ <-. reflexivity.
Qed.

(* the two oracle theorems without the restriction on authentication *)
Theorem oracle_turns_model_auth sc :
  case_nocopy sc = true ->
  (forall v after rest, start (cfg_of_case sc) (sc_raw sc) = Some (v, after, rest) -> v <> version_ssl) ->
  oracle_turns sc (run_case sc) = true.
Proof.
  intros Hn Hssl.
  assert (V : verdict_ok (client_frames sc) (run_case sc)).
  { unfold run_case, serve.
    destruct (start (cfg_of_case sc) (sc_raw sc)) as [[[v after] rest]|] eqn:Es; [|apply (verdict_short _ []); reflexivity].
    destruct (v =? version_cancel); [apply (verdict_short _ []); reflexivity|].
    destruct (Z.eqb_spec v version_ssl) as [->|_]; [exfalso; eapply Hssl; eauto|].
    apply session_turns; [apply case_cfg_nocopy; exact Hn|apply case_text_safe|].
    intros cparams aevs s' _ Hauth. eapply case_frames; eauto. }
  destruct V as [V1 V2]. unfold oracle_turns, turn_verdict. rewrite V1.
  destruct (turns (run_case sc)) as [|t0 ts]; [contradiction|].
  destruct V2 as (V2 & V3 & V4). rewrite V2, V3, V4. reflexivity.
Qed.

Theorem oracle_C05_model_auth sc :
  case_nocopy sc = true ->
  (forall v after rest, start (cfg_of_case sc) (sc_raw sc) = Some (v, after, rest) -> v <> version_ssl) ->
  oracle_C05 sc (run_case sc) = true.
Proof.
  intros Hn Hssl. unfold oracle_C05. rewrite (oracle_turns_model_auth sc Hn Hssl). cbn [andb].
  destruct (t_copy (turn_verdict sc (run_case sc))); [reflexivity|].
  assert (V : cycles_verdict (client_frames sc) (run_case sc)).
  { unfold run_case, serve.
    destruct (start (cfg_of_case sc) (sc_raw sc)) as [[[v after] rest]|] eqn:Es; [|apply (cycles_short _ []); reflexivity].
    destruct (v =? version_cancel); [apply (cycles_short _ []); reflexivity|].
    destruct (Z.eqb_spec v version_ssl) as [->|_]; [exfalso; eapply Hssl; eauto|].
    apply session_cycles; [apply case_cfg_nocopy; exact Hn|apply case_text_safe|].
    intros cparams aevs s' _ Hauth. eapply case_frames; eauto. }
  unfold cycles_verdict in V. destruct (turns (run_case sc)) as [|t0 ts]; [reflexivity|exact V].
Qed.
