(* OracleFactsLife.v — the model satisfies the session-lifecycle oracle [oracle_C19]. *)
Require Import Wire.Bytes Spec.BackendSpec Spec.BackendSpecFacts Wire.Errors Wire.Framing Wire.Session
  Wire.SessionFacts Wire.CommandFacts Wire.RobustFacts Wire.Case Spec.KindFacts Spec.Oracles Spec.OracleFacts
  Spec.OracleFactsAuth.
From Coq Require Import String.
Local Open Scope string_scope.
Local Open Scope list_scope.
Local Open Scope Z_scope.

(* events of the authentication exchange and the parameter block *)
Definition quiet_ev (e : ev) : bool :=
  match e with
  | Out (BAuth _) | Out (BParamStatus _ _) | Out (BError _) | CbValidate _ _ _ => true
  | _ => false
  end.
Definition quiet (l : list ev) : bool := forallb quiet_ev l.

(* a list the middleware / served / terminate tests of the oracle see nothing in *)
Record inert (l : list ev) : Prop := {
  i_mw : forall b i, mw_seq (l ++ b) i = mw_seq b i;
  i_cut : forall b, cut_mw (l ++ b) = (l ++ fst (cut_mw b), snd (cut_mw b));
  i_fmw : filter is_mw_ev l = [];
  i_emw : existsb is_mw_ev l = false;
  i_term : filter is_term_ev l = [];
  i_eterm : existsb is_term_ev l = false;
  i_after : forall b, after_term (l ++ b) = after_term b;
  i_crash : existsb crashp l = false }.

Lemma inert_of (P : ev -> bool) :
  (forall e, P e = true -> is_mw_ev e = false /\ is_term_ev e = false /\ crashp e = false) ->
  forall l, forallb P l = true -> inert l.
Proof.
  intros HP. induction l as [|e r IH]; intros H.
  - constructor; intros; try reflexivity. cbn. destruct (cut_mw b). reflexivity.
  - cbn [forallb] in H. apply andb_prop in H as [H1 H2]. destruct (HP e H1) as (A & B & C). destruct (IH H2) as [I1 I2 I3 I4 I5 I6 I7 I8].
    constructor; intros; cbn [app filter existsb after_term cut_mw]; rewrite ?A, ?B, ?C, ?I3, ?I4, ?I5, ?I6, ?I7, ?I8; try reflexivity.
    + destruct e; cbn in A |- *; try discriminate; apply I1.
    + rewrite I2. reflexivity.
Qed.

Lemma quiet_inert l : quiet l = true -> inert l.
Proof. apply inert_of. intros e H. destruct e as [m| | | | | | | | | | |]; try destruct m; cbn in *; try discriminate; auto. Qed.

Lemma sess_inert l : sess_evs l = true -> inert l.
Proof. apply inert_of. intros e H. destruct e as [m| | | | | | | | | | |]; try destruct m; cbn in *; try discriminate; auto. Qed.

Lemma quiet_not_served l : quiet l = true -> existsb is_served_ev l = false.
Proof.
  induction l as [|e r IH]; [reflexivity|]. cbn [quiet forallb existsb]. intros H. apply andb_prop in H as [H1 H2].
  rewrite (IH H2). destruct e as [m| | | | | | | | | | |]; try destruct m; cbn in *; try discriminate; reflexivity.
Qed.

(* the middleware events *)
Lemma mw_events_seq : forall n i b, mw_seq (mw_events n i ++ b) i = mw_seq b (i + Z.of_nat n).
Proof.
  induction n as [|n IH]; intros i b; cbn [mw_events app mw_seq]; [f_equal; lia|].
  rewrite Z.eqb_refl, IH. cbn [andb]. f_equal. lia.
Qed.
Lemma mw_events_filter : forall n i, filter is_mw_ev (mw_events n i) = mw_events n i.
Proof. induction n as [|n IH]; intros i; cbn; [reflexivity|]. rewrite IH. reflexivity. Qed.
Lemma mw_events_length : forall n i, List.length (mw_events n i) = n.
Proof. induction n as [|n IH]; intros i; cbn; [reflexivity|]. rewrite IH. reflexivity. Qed.
Lemma mw_events_inertish : forall n i,
  existsb is_served_ev (mw_events n i) = false /\ filter is_term_ev (mw_events n i) = [] /\
  existsb is_term_ev (mw_events n i) = false /\ existsb crashp (mw_events n i) = false /\
  (forall b, after_term (mw_events n i ++ b) = after_term b).
Proof.
  induction n as [|n IH]; intros i; cbn; [repeat split|]. destruct (IH (i + 1)) as (A & B & C & D & E). repeat split; auto.
Qed.

Lemma first_fail_spec : forall mws i,
  first_fail_from mws i = if Nat.eqb (ok_prefix mws) (List.length mws) then None else Some (i + Z.of_nat (ok_prefix mws)).
Proof.
  induction mws as [|ok r IH]; intros i; cbn [first_fail_from ok_prefix List.length]; [reflexivity|].
  destruct ok.
  - rewrite IH. cbn [Nat.eqb]. destruct (Nat.eqb (ok_prefix r) (List.length r)); [reflexivity|]. f_equal. lia.
  - cbn. f_equal. lia.
Qed.

Definition authok (e : ev) : bool := match e with Out (BAuth c) => c =? 0 | _ => false end.

Inductive sshape (c : cfg) : list ev -> Prop :=
| ss_short : sshape c [Closed]
| ss_authfail pre : quiet pre = true -> sshape c (pre ++ [Closed])
| ss_mwfail pre :
    quiet pre = true -> existsb authok pre = true ->
    Nat.eqb (ok_prefix (cfg_mws c)) (List.length (cfg_mws c)) = false ->
    sshape c (pre ++ mw_events (S (ok_prefix (cfg_mws c))) 0 ++ [Closed])
| ss_served pre body tc :
    quiet pre = true -> existsb authok pre = true ->
    Nat.eqb (ok_prefix (cfg_mws c)) (List.length (cfg_mws c)) = true ->
    sess_evs body = true ->
    (tc = [Closed] \/ (tc = [CbTerminate; Closed] /\ cfg_term c <> None)) ->
    sshape c (pre ++ mw_events (List.length (cfg_mws c)) 0 ++ [Out ready] ++ body ++ tc).

Lemma auth_phase_quiet c cparams s evs rest ok :
  auth_phase c cparams s = (evs, rest, ok) -> quiet evs = true /\ (ok = true -> existsb authok evs = true).
Proof.
  unfold auth_phase. intros H.
  destruct (cfg_auth c) as [validate|]; [|injection H as <- <- <-; split; reflexivity].
  destruct s as [|t [|a [|b [|c4 [|d r]]]]]; try (injection H as <- <- <-; split; [reflexivity|discriminate]).
  destruct ((rd32 a b c4 d - 4 <? 0) || (rd32 a b c4 d - 4 >? eff_limit (cfg_limit c))); [injection H as <- <- <-; split; [reflexivity|discriminate]|].
  destruct (takeZ (rd32 a b c4 d - 4) r) as [[body rest0]|]; [|injection H as <- <- <-; split; [reflexivity|discriminate]].
  destruct (negb (Byte.eqb t x70)); [injection H as <- <- <-; split; [reflexivity|discriminate]|].
  destruct (take_cstr body) as [[pw x]|]; [|injection H as <- <- <-; split; [reflexivity|discriminate]].
  destruct (validate _ _ pw); injection H as <- <- <-; split; try reflexivity; discriminate.
Qed.

Lemma pstatus_quiet l : quiet (map (fun kv : bytes * bytes => Out (BParamStatus (fst kv) (snd kv))) l) = true.
Proof. induction l as [|x r IH]; [reflexivity|exact IH]. Qed.

Lemma quiet_app a b : quiet (a ++ b) = quiet a && quiet b.
Proof. apply forallb_app. Qed.

Lemma session_sshape c after s : text_safe c -> sshape c (session c after s).
Proof.
  intros Hts. unfold session.
  destruct (read_params (S (List.length after)) after) as [cparams|]; [|constructor].
  destruct (auth_phase c cparams s) as [[aevs s'] ok] eqn:Ea.
  destruct (auth_phase_quiet _ _ _ _ _ _ Ea) as [Qa Oa].
  destruct ok; cbn [negb]; [|apply ss_authfail; exact Qa].
  set (pevs := map (fun kv : bytes * bytes => Out (BParamStatus (fst kv) (snd kv))) (server_params c (param_get (bs "user") cparams))).
  assert (Qp : quiet (aevs ++ pevs) = true) by (rewrite quiet_app, Qa; apply pstatus_quiet).
  assert (Op : existsb authok (aevs ++ pevs) = true) by (rewrite existsb_app, (Oa eq_refl); reflexivity).
  rewrite (run_mws_spec (cfg_mws c) 0).
  destruct (Nat.eqb (ok_prefix (cfg_mws c)) (List.length (cfg_mws c))) eqn:Em; cbn [negb].
  - destruct (frames (cfg_limit c) s') as [fs tl].
    destruct (loop_kind c tl Hts (S (List.length fs)) st_init fs (Nat.lt_succ_diag_r _)) as (body & B1 & B2).
    rewrite (app_assoc aevs pevs).
    destruct B2 as [-> | [-> T]]; apply ss_served; auto.
  - rewrite (app_assoc aevs pevs). apply ss_mwfail; auto.
Qed.

Lemma lenZ_mw_events n i : lenZ (mw_events n i) = Z.of_nat n.
Proof. unfold lenZ. rewrite mw_events_length. reflexivity. Qed.

Lemma count_term_app a b : count is_term_ev (a ++ b) = count is_term_ev a + count is_term_ev b.
Proof. unfold count, lenZ. rewrite filter_app, app_length. lia. Qed.

Lemma ends_closed_end a b : ends_closed (a ++ b ++ [Closed]) = true.
Proof. unfold ends_closed. rewrite !existsb_app. cbn. rewrite !orb_true_r. reflexivity. Qed.

Theorem sshape_oracle_C19 sc log : sshape (cfg_of_case sc) log -> oracle_C19 sc log = true.
Proof.
  intros S. unfold oracle_C19, first_fail. rewrite first_fail_spec.
  change (sc_mws sc) with (cfg_mws (cfg_of_case sc)). change (sc_term sc) with (cfg_term (cfg_of_case sc)).
  set (c := cfg_of_case sc) in *. clearbody c.
  destruct S as [|pre Q|pre Q O Em|pre body tc Q O Em B T].
  - destruct (Nat.eqb _ _); destruct (cfg_term c); reflexivity.
  - pose proof (quiet_inert _ Q) as [I1 I2 I3 I4 I5 I6 I7 I8]. pose proof (quiet_not_served _ Q) as NS.
    unfold no_crash, count, lenZ. change (existsb _ (pre ++ [Closed])) with (existsb crashp (pre ++ [Closed])) at 1.
    rewrite !existsb_app, !filter_app, I1, I2, I3, I4, I5, I6, I7, I8, NS. cbn.
    destruct (Nat.eqb _ _); destruct (cfg_term c); reflexivity.
  - pose proof (quiet_inert _ Q) as [I1 I2 I3 I4 I5 I6 I7 I8]. pose proof (quiet_not_served _ Q) as NS.
    destruct (mw_events_inertish (S (ok_prefix (cfg_mws c))) 0) as (M1 & M2 & M3 & M4 & M5).
    rewrite Em. unfold no_crash, count.
    change (existsb (fun e : ev => match e with Crash | OutOfFuel => true | _ => false end)) with (existsb crashp).
    rewrite !existsb_app, !filter_app, I1, I2, I3, I4, I5, I6, I7, I8, NS, M1, M2, M3, M4, M5, mw_events_seq, mw_events_filter.
    cbn [mw_events app cut_mw is_mw_ev fst snd existsb orb negb andb filter is_mw_ev mw_seq after_term is_term_ev all_b forallb].
    change (fun e : ev => match e with Out (BAuth c0) => c0 =? 0 | _ => false end) with authok.
    rewrite !app_nil_r, O, NS, lenZ_cons, lenZ_mw_events.
    change (CbMw 0 :: mw_events (ok_prefix (cfg_mws c)) (0 + 1) ++ [Closed]) with ((CbMw 0 :: mw_events (ok_prefix (cfg_mws c)) (0 + 1)) ++ [Closed]).
    rewrite ends_closed_end.
    cbn. rewrite ?Z.eqb_refl.
    replace (1 + Z.of_nat (ok_prefix (cfg_mws c)) =? 0 + Z.of_nat (ok_prefix (cfg_mws c)) + 1) with true by (symmetry; apply Z.eqb_eq; lia).
    destruct (cfg_term c); reflexivity.
  - pose proof (quiet_inert _ Q) as [I1 I2 I3 I4 I5 I6 I7 I8]. pose proof (quiet_not_served _ Q) as NS.
    pose proof (sess_inert _ B) as [J1 J2 J3 J4 J5 J6 J7 J8].
    destruct (mw_events_inertish (List.length (cfg_mws c)) 0) as (M1 & M2 & M3 & M4 & M5).
    rewrite Em. unfold no_crash, count.
    change (existsb (fun e : ev => match e with Crash | OutOfFuel => true | _ => false end)) with (existsb crashp).
    change (fun e : ev => match e with Out (BAuth c0) => c0 =? 0 | _ => false end) with authok.
    assert (Cut : forall tc0, cut_mw tc0 = (tc0, []) ->
              cut_mw (pre ++ mw_events (List.length (cfg_mws c)) 0 ++ [Out ready] ++ body ++ tc0) =
              match List.length (cfg_mws c) with
              | O => (pre ++ [Out ready] ++ body ++ tc0, [])
              | S _ => (pre, mw_events (List.length (cfg_mws c)) 0 ++ [Out ready] ++ body ++ tc0)
              end).
    { intros tc0 Ht. rewrite I2. destruct (List.length (cfg_mws c)) as [|k].
      - cbn [mw_events app cut_mw is_mw_ev]. rewrite J2, Ht. cbn [fst snd]. reflexivity.
      - cbn [mw_events app cut_mw is_mw_ev fst snd]. rewrite app_nil_r. reflexivity. }
    assert (Common : forall tc0, cut_mw tc0 = (tc0, []) -> filter is_mw_ev tc0 = [] -> existsb crashp tc0 = false ->
              mw_seq tc0 (0 + Z.of_nat (List.length (cfg_mws c))) = true ->
              (lenZ (filter is_term_ev tc0) <=? 1) = true ->
              all_b (fun e : ev => match e with Closed | Consume => true | _ => false end) (after_term tc0) = true ->
              match cfg_term c with None => negb (existsb is_term_ev tc0) | Some _ => true end = true ->
              let log := pre ++ mw_events (List.length (cfg_mws c)) 0 ++ [Out ready] ++ body ++ tc0 in
              negb (existsb crashp log) && (mw_seq log 0 &&
                (let (pre0, post) := cut_mw log in
                 match post with [] => true | _ :: _ => negb (existsb is_served_ev pre0) && existsb authok pre0 end) &&
                (if existsb is_served_ev log then lenZ (filter is_mw_ev log) =? lenZ (cfg_mws c) else true) &&
                (lenZ (filter is_term_ev log) <=? 1) &&
                all_b (fun e : ev => match e with Closed | Consume => true | _ => false end) (after_term log) &&
                match cfg_term c with None => negb (existsb is_term_ev log) | Some _ => true end) = true).
    { intros tc0 Ht F0 C0 S0 K0 A0 T0 log. unfold log. rewrite (Cut tc0 Ht).
      rewrite !existsb_app, !filter_app, I1, I3, I5, I6, I7, I8, M2, M3, M4, M5, mw_events_seq, mw_events_filter.
      cbn [app existsb filter is_mw_ev is_term_ev crashp is_served_ev mw_seq after_term orb].
      rewrite J1, J3, J5, J6, J7, J8, M1. unfold ready. cbn [app orb].
      rewrite F0, C0, S0, K0, A0, !app_nil_r, lenZ_mw_events, !orb_true_r.
      unfold lenZ. rewrite Z.eqb_refl.
      destruct (List.length (cfg_mws c)); [|rewrite NS, O]; cbn [negb andb orb]; destruct (cfg_term c); cbn in T0 |- *; try exact T0; reflexivity. }
    destruct T as [->|[-> T]].
    + apply Common; try reflexivity. destruct (cfg_term c); reflexivity.
    + apply Common; try reflexivity. destruct (cfg_term c); [reflexivity|contradiction].
Qed.

Theorem oracle_C19_model sc :
  (forall v after rest, start (cfg_of_case sc) (sc_raw sc) = Some (v, after, rest) -> v <> version_ssl) ->
  oracle_C19 sc (run_case sc) = true.
Proof.
  intros Hssl. apply sshape_oracle_C19. unfold run_case, serve.
  destruct (start (cfg_of_case sc) (sc_raw sc)) as [[[v after] rest]|] eqn:Es; [|constructor].
  destruct (v =? version_cancel); [constructor|].
  destruct (Z.eqb_spec v version_ssl) as [->|_]; [exfalso; eapply Hssl; eauto|].
  apply session_sshape. apply case_text_safe.
Qed.

(* ---------- no crash, whole connection ---------- *)
Lemma sshape_no_crash c log : sshape c log -> existsb crashp log = false /\ ends_closed log = true.
Proof.
  intros S. destruct S as [|pre Q|pre Q O Em|pre body tc Q O Em B T].
  - split; reflexivity.
  - pose proof (quiet_inert _ Q) as [_ _ _ _ _ _ _ I8]. rewrite existsb_app, I8. split; [reflexivity|].
    unfold ends_closed. rewrite existsb_app. cbn. apply orb_true_r.
  - pose proof (quiet_inert _ Q) as [_ _ _ _ _ _ _ I8].
    destruct (mw_events_inertish (S (ok_prefix (cfg_mws c))) 0) as (_ & _ & _ & M4 & _).
    rewrite !existsb_app, I8, M4. split; [reflexivity|]. apply ends_closed_end.
  - pose proof (quiet_inert _ Q) as [_ _ _ _ _ _ _ I8]. pose proof (sess_inert _ B) as [_ _ _ _ _ _ _ J8].
    destruct (mw_events_inertish (List.length (cfg_mws c)) 0) as (_ & _ & _ & M4 & _).
    rewrite !existsb_app, I8, M4, J8. unfold ends_closed. rewrite !existsb_app.
    destruct T as [->|[-> _]]; cbn; rewrite !orb_true_r; split; reflexivity.
Qed.

Theorem serve_no_crash c raw tls : text_safe c ->
  existsb crashp (serve c raw tls) = false /\ ends_closed (serve c raw tls) = true.
Proof.
  intros Hts. unfold serve.
  destruct (start c raw) as [[[v after] rest]|]; [|split; reflexivity].
  destruct (v =? version_cancel); [split; reflexivity|].
  destruct (v =? version_ssl); [|apply (sshape_no_crash c); apply session_sshape; exact Hts].
  assert (G : forall b l, existsb crashp l = false /\ ends_closed l = true ->
              existsb crashp (RawOut b :: l) = false /\ ends_closed (RawOut b :: l) = true) by (intros b l [A B]; split; assumption).
  destruct (cfg_tls c); apply G.
  - destruct tls as [plain|]; [|split; reflexivity].
    destruct (start c plain) as [[[v2 after2] rest2]|]; [|split; reflexivity].
    destruct (v2 =? version_cancel); [split; reflexivity|apply (sshape_no_crash c); apply session_sshape; exact Hts].
  - destruct (start c rest) as [[[v2 after2] rest2]|]; [|split; reflexivity].
    destruct (v2 =? version_cancel); [split; reflexivity|apply (sshape_no_crash c); apply session_sshape; exact Hts].
Qed.
