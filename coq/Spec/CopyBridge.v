(* CopyBridge.v — from the client's frames to the rows of the binary row reader: what successive
   CopyReader.Read calls ([copy_read]) return for a COPY-in stream is exactly the list of CopyData payloads, in
   order, then end-of-stream at CopyDone, Flush and Sync skipped — and that list is the chunk list of
   [decode_all], the library's binary row reader. *)
From Coq Require Import Lia.
Require Import Wire.Bytes Wire.Errors Wire.Framing Wire.Session Wire.Transport Wire.Copy Wire.CopyFacts Wire.CopyRoundtrip.
Local Open Scope list_scope.
Local Open Scope Z_scope.

(* Read until something other than a payload comes back *)
Fixpoint copy_reads (fuel : nat) (L : Z) (fs : list frame) (tl : rderr) : list bytes * opres * list frame :=
  match fuel with
  | O => ([], OErr e_unexpected_eof, fs)
  | S n =>
      match copy_read L fs tl with
      | (_, OData b, rest) => let '(bs, r, rest') := copy_reads n L rest tl in (b :: bs, r, rest')
      | (_, r, rest) => ([], r, rest)
      end
  end.

(* a COPY-in stream as the client sends it: CopyData messages carrying [chunks], Flush/Sync anywhere in
   between, closed by CopyDone, followed by [rest] *)
Inductive copy_stream : list frame -> list bytes -> list frame -> Prop :=
| cs_done : forall body rest, copy_stream (FMsg x63 body :: rest) [] rest
| cs_data : forall b fs chunks rest, copy_stream fs chunks rest -> copy_stream (FMsg x64 b :: fs) (b :: chunks) rest
| cs_noise : forall t body fs chunks rest, (t = x48 \/ t = x53) -> copy_stream fs chunks rest ->
             copy_stream (FMsg t body :: fs) chunks rest.

Lemma copy_read_stream L tl : forall fs chunks rest, copy_stream fs chunks rest ->
  match chunks with
  | [] => exists evs, copy_read L fs tl = (evs, OEof, rest)
  | b :: more => exists evs fs', copy_read L fs tl = (evs, OData b, fs') /\ copy_stream fs' more rest /\
                 (List.length fs' < List.length fs)%nat
  end.
Proof.
  intros fs chunks rest H. induction H as [body rest|b fs chunks rest H IH|t body fs chunks rest Ht H IH].
  - eexists. reflexivity.
  - eexists. exists fs. split; [reflexivity|split; [exact H|cbn; apply Nat.lt_succ_diag_r]].
  - assert (E : Byte.eqb t x48 || Byte.eqb t x53 = true) by (destruct Ht; subst; reflexivity).
    cbn [copy_read]. rewrite E. destruct chunks as [|b more].
    + destruct IH as [evs IH]. rewrite IH. eexists. reflexivity.
    + destruct IH as (evs & fs' & IH & S & Lt). rewrite IH. eexists. exists fs'. split; [reflexivity|split; [exact S|cbn; apply Nat.lt_lt_succ_r; exact Lt]].
Qed.

Theorem copy_reads_stream L tl : forall fuel fs chunks rest,
  copy_stream fs chunks rest -> (List.length fs < fuel)%nat ->
  copy_reads fuel L fs tl = (chunks, OEof, rest).
Proof.
  induction fuel as [|n IH]; intros fs chunks rest H Hl; [inversion Hl|].
  pose proof (copy_read_stream L tl fs chunks rest H) as R. cbn [copy_reads]. destruct chunks as [|b more].
  - destruct R as [evs R]. rewrite R. reflexivity.
  - destruct R as (evs & fs' & R & S & Lt). rewrite R.
    rewrite (IH fs' more rest S) by lia. reflexivity.
Qed.
