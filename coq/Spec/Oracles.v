(* Oracles.v — executable statements of the session-level properties, evaluated
   on the log OBSERVED on the implementation (lock-step delivery: the log
   carries a [Consume] marker in front of the events caused by each client
   message after the startup exchange).  They speak about the client's frames
   and the observed events only, not about the model's session logic. *)
Require Import Wire.Bytes Spec.BackendSpec Wire.Errors Wire.Framing Wire.Session Wire.Transport Wire.Copy Wire.Codec Wire.Case.
From Coq Require Import String.
Local Open Scope string_scope.
Local Open Scope list_scope.
Local Open Scope Z_scope.

(* ---------- generic helpers ---------- *)
Fixpoint split_consume (cur : list ev) (l : list ev) : list (list ev) :=
  match l with
  | [] => [rev cur]
  | Consume :: r => rev cur :: split_consume [] r
  | e :: r => split_consume (e :: cur) r
  end.
Definition turns (log : list ev) : list (list ev) := split_consume [] log.

Definition outs (evs : list ev) : list bmsg :=
  flat_map (fun e => match e with Out m => [m] | _ => [] end) evs.
Definition is_cb (e : ev) : bool :=
  match e with
  | CbValidate _ _ _ | CbMw _ | CbParse _ | CbExec _ _ | CbOp _ | CbTerminate => true
  | _ => false
  end.
Definition cbs (evs : list ev) : list ev := filter is_cb evs.
Definition is_closed_ev (e : ev) : bool := match e with Closed => true | _ => false end.
Definition ends_closed (evs : list ev) : bool := existsb is_closed_ev evs.
Definition no_crash (log : list ev) : bool :=
  negb (existsb (fun e => match e with Crash | OutOfFuel => true | _ => false end) log).

Definition is_ready (m : bmsg) : bool := match m with BReady s => Byte.eqb s x49 | _ => false end.
Definition is_error (m : bmsg) : bool := match m with BError _ => true | _ => false end.
Definition is_datarow (m : bmsg) : bool := match m with BDataRow _ => true | _ => false end.
Definition count {A} (p : A -> bool) (l : list A) : Z := lenZ (filter p l).

Definition efield (code : byte) (m : bmsg) : option bytes :=
  match m with
  | BError fs => match filter (fun f => Byte.eqb (fst f) code) fs with (_, v) :: _ => Some v | [] => None end
  | _ => None
  end.
Definition sqlstate_is (m : bmsg) (code : bytes) : bool :=
  match efield x43 m with Some c => bytes_eqb c code | None => false end.
Definition severity_is (m : bmsg) (s : bytes) : bool :=
  match efield x53 m with Some c => bytes_eqb c s | None => false end.

(* the client's frames after the startup exchange (plaintext, no SSLRequest) *)
Definition client_frames (sc : scase) : list frame :=
  match untyped (sc_limit sc) (sc_raw sc) with
  | None => []
  | Some (_, rest) =>
      let rest' :=
        match sc_auth sc with
        | None => rest
        | Some _ =>
            match frames (sc_limit sc) rest with
            | (FMsg t body :: _, _) => skipn (5 + List.length body) rest
            | _ => []
            end
        end in
      fst (frames (sc_limit sc) rest')
  end.

(* is the body of a client message complete enough to be processed? *)
Definition wf_client (f : frame) : bool :=
  match f with
  | FMsg t body =>
      if Byte.eqb t x51 then match take_cstr body with Some _ => true | None => false end
      else if Byte.eqb t x50 then
        match take_cstr body with
        | Some (_, l1) => match take_cstr l1 with
                          | Some (_, l2) => match p_u16 l2 with Some _ => true | None => false end
                          | None => false end
        | None => false end
      else if Byte.eqb t x42 then match decode_bind body with Some _ => true | None => false end
      else if Byte.eqb t x44 || Byte.eqb t x43 then
        match body with _ :: l1 => match take_cstr l1 with Some _ => true | None => false end | [] => false end
      else if Byte.eqb t x45 then
        match take_cstr body with
        | Some (_, l1) => match p_u32 l1 with Some _ => true | None => false end
        | None => false end
      else true
  | FOver _ _ (Some _) => false
  | FTail => false
  | _ => true
  end.

(* ---------- the per-message reply discipline (C06, C10, C19-terminate) ---------- *)
Definition all_b {A} (p : A -> bool) (l : list A) : bool := forallb p l.

Definition shape_one (p : bmsg -> bool) (ms : list bmsg) : bool :=
  match ms with [m] => p m | _ => false end.
Definition is_parse_complete m := match m with BParseComplete => true | _ => false end.
Definition is_bind_complete m := match m with BBindComplete => true | _ => false end.
Definition is_close_complete m := match m with BCloseComplete => true | _ => false end.
Definition is_rowdesc_or_nodata m := match m with BRowDesc _ | BNoData => true | _ => false end.
Definition is_paramdesc m := match m with BParamDesc _ => true | _ => false end.
Definition is_complete m := match m with BComplete _ => true | _ => false end.
Definition is_copyin m := match m with BCopyIn _ _ => true | _ => false end.

(* Execute: DataRow* CommandComplete? ErrorResponse?   (no ReadyForQuery) *)
Fixpoint shape_execute (ms : list bmsg) : bool :=
  match ms with
  | [] => true
  | BDataRow _ :: r => shape_execute r
  | BCopyIn _ _ :: r => shape_execute r
  | [BComplete _] => true
  | [BComplete _; BError _] => true
  | [BError _] => true
  | _ => false
  end.

(* a simple-protocol cycle: no ReadyForQuery except one, which is last; at most
   one ErrorResponse, which is then directly in front of it *)
Definition shape_simple (ms : list bmsg) : bool :=
  match rev ms with
  | z :: before =>
      is_ready z && (count is_ready before =? 0) &&
      (match before with
       | e :: before' => (if is_error e then true else true) && (count is_error before' =? 0)
       | [] => true
       end)
  | [] => false
  end.

Record tstate := { t_discard : bool; t_copy : bool; t_ok : bool; t_why : Z }.
Definition t_bad (s : tstate) (why : Z) : tstate :=
  {| t_discard := t_discard s; t_copy := t_copy s; t_ok := false; t_why := (if t_ok s then why else t_why s) |}.

Definition has_error (ms : list bmsg) : bool := existsb is_error ms.

(* one client frame and the events it caused *)
Definition turn_step (s : tstate) (f : frame) (evs0 : list ev) : tstate :=
  let evs := filter (fun e => negb (is_closed_ev e)) evs0 in
  if negb (t_ok s) then s else
  if t_copy s then s   (* a COPY sub-protocol is in progress: judged by C13 *)
  else
  let ms := outs evs in
  let t := frame_type f in
  let started_copy := existsb is_copyin ms in
  let mk d ok why := {| t_discard := d; t_copy := started_copy; t_ok := ok; t_why := (if ok then 0 else why) |} in
  match f with
  | FOver _ _ (Some _) => s
  | FTail => s
  | FOver _ _ None | FBad _ _ =>
      if t_discard s && negb (Byte.eqb t x53) then mk true (match evs with [] => true | _ => false end) 101
      else if is_ext t then
        mk true (shape_one is_error ms && all_b (fun m => sqlstate_is m (bs "54000") && severity_is m (bs "ERROR")) ms
                 && (match cbs evs with [] => true | _ => false end)) 102
      else
        mk false (match ms with
                  | [e; z] => is_error e && is_ready z && sqlstate_is e (bs "54000") && severity_is e (bs "ERROR")
                  | _ => false end && (match cbs evs with [] => true | _ => false end)) 103
  | FMsg _ body =>
      if t_discard s && negb (Byte.eqb t x53) && negb (Byte.eqb t x58) then
        mk true (match evs with [] => true | _ => false end) 104
      else if negb (wf_client f) then
        (* a malformed body may end the connection; it must not produce a ReadyForQuery-less success *)
        mk (t_discard s) (negb (existsb is_cb (filter (fun e => match e with CbExec _ _ => true | _ => false end) evs))) 105
      else if Byte.eqb t x50 then
        mk (has_error ms) (shape_one is_parse_complete ms || shape_one is_error ms) 106
      else if Byte.eqb t x42 then
        mk (has_error ms) ((shape_one is_bind_complete ms || shape_one is_error ms) &&
                           (match cbs evs with [] => true | _ => false end)) 107
      else if Byte.eqb t x44 then
        mk (has_error ms)
           (match body with
            | k :: _ =>
                if Byte.eqb k x53 then
                  (match ms with [a; b] => is_paramdesc a && is_rowdesc_or_nodata b | _ => false end) || shape_one is_error ms
                else if Byte.eqb k x50 then shape_one is_rowdesc_or_nodata ms || shape_one is_error ms
                else shape_one is_error ms
            | [] => false
            end && (match cbs evs with [] => true | _ => false end)) 108
      else if Byte.eqb t x45 then mk (has_error ms) (shape_execute ms) 109
      else if Byte.eqb t x43 then
        mk (has_error ms) ((shape_one is_close_complete ms || shape_one is_error ms) &&
                           (match cbs evs with [] => true | _ => false end)) 110
      else if Byte.eqb t x48 then mk (t_discard s) (match evs with [] => true | _ => false end) 111
      else if Byte.eqb t x53 then mk false (shape_one is_ready ms && (match cbs evs with [] => true | _ => false end)) 112
      else if Byte.eqb t x51 then mk (t_discard s) (shape_simple ms) 113
      else if Byte.eqb t x58 then
        mk (t_discard s) (match ms with [] => true | _ => false end &&
                          all_b (fun e => match e with CbTerminate => true | _ => false end) (cbs evs) &&
                          (count (fun e => match e with CbTerminate => true | _ => false end) evs <=? 1) &&
                          ends_closed evs0) 114
      else if Byte.eqb t x64 || Byte.eqb t x63 || Byte.eqb t x66 then
        mk (t_discard s) (match evs with [] => true | _ => false end) 115
      else mk (t_discard s) (match ms with [e; z] => is_error e && is_ready z | _ => false end &&
                             (match cbs evs with [] => true | _ => false end)) 116
  end.

Fixpoint turn_fold (s : tstate) (fs : list frame) (ts : list (list ev)) : tstate :=
  match fs, ts with
  | f :: fr, t :: tr => turn_fold (turn_step s f t) fr tr
  | _, _ => s
  end.

(* the connection may end before all frames are consumed only at a Terminate,
   at a message whose body is malformed/truncated, or when the input is over *)
Fixpoint early_end_ok (fs : list frame) (ts : list (list ev)) : bool :=
  match fs, ts with
  | f :: fr, [t] => (match fr with [] => true | _ => ends_closed t && (Byte.eqb (frame_type f) x58 || negb (wf_client f)) end)
  | _ :: fr, _ :: tr => early_end_ok fr tr
  | _, _ => true
  end.

Definition t_init : tstate := {| t_discard := false; t_copy := false; t_ok := true; t_why := 0 |}.

Definition turn_verdict (sc : scase) (log : list ev) : tstate :=
  match turns log with
  | _startup :: ts => turn_fold t_init (client_frames sc) ts
  | [] => t_init
  end.

(* the lock-step reply discipline: every client message gets its designated
   reply before the next one is consumed *)
Definition oracle_turns (sc : scase) (log : list ev) : bool :=
  no_crash log &&
  t_ok (turn_verdict sc log) &&
  (if t_copy (turn_verdict sc log) then true
   else match turns log with _ :: ts => early_end_ok (client_frames sc) ts | [] => true end).

(* on its own: a connection that the server ends before the client's input is used up ended at a Terminate or at
   a message it could not read (evaluated for COPY sessions too, where [oracle_turns] does not judge) *)
Definition oracle_early_end (sc : scase) (log : list ev) : bool :=
  match turns log with _ :: ts => early_end_ok (client_frames sc) ts | [] => true end.

(* the same rule as one left-to-right scan next to the client's frames (the form proven of the model for every
   configuration, COPY handlers included): when the server closes the connection while frames are still to come,
   the message it handled last is a Terminate or one it could not read *)
Record emon := { e_rem : list frame; e_cur : option frame; e_ok : bool }.
Definition end_reason (c : option frame) : bool :=
  match c with Some f => Byte.eqb (frame_type f) x58 || negb (wf_client f) | None => true end.
Definition emon_step (m : emon) (e : ev) : emon :=
  match e with
  | Consume =>
      match e_rem m with
      | f :: r => {| e_rem := r; e_cur := Some f; e_ok := e_ok m |}
      | [] => {| e_rem := []; e_cur := e_cur m; e_ok := e_ok m |}
      end
  | Closed =>
      {| e_rem := e_rem m; e_cur := e_cur m;
         e_ok := e_ok m && (match e_rem m with [] => true | _ => end_reason (e_cur m) end) |}
  | _ => m
  end.
Definition oracle_early_scan (sc : scase) (log : list ev) : bool :=
  e_ok (fold_left emon_step log {| e_rem := client_frames sc; e_cur := None; e_ok := true |}).

(* the parse function is handed only, in order and each at most once, query texts of complete Query / Parse
   messages the client sent within the limit (nothing out of a skipped, truncated or malformed message): the texts
   seen are a subsequence of the texts sent — one scan, no turn markers needed *)
Definition query_of (f : frame) : option bytes :=
  match f with
  | FMsg t body =>
      if Byte.eqb t x51 then match take_cstr body with Some (q, _) => Some q | None => None end
      else if Byte.eqb t x50 then
        match take_cstr body with
        | Some (_, l1) => match take_cstr l1 with
                          | Some (q, l2) => match p_u16 l2 with Some _ => Some q | None => None end
                          | None => None end
        | None => None end
      else None
  | _ => None
  end.
Fixpoint match_query (q : bytes) (fs : list frame) : option (list frame) :=
  match fs with
  | [] => None
  | f :: r => match query_of f with
              | Some q' => if bytes_eqb q q' then Some r else match_query q r
              | None => match_query q r
              end
  end.
Definition pb_step (st : option (list frame)) (e : ev) : option (list frame) :=
  match st, e with
  | Some fs, CbParse q => match_query q fs
  | _, _ => st
  end.
Definition oracle_parse_budget (sc : scase) (log : list ev) : bool :=
  match fold_left pb_step log (Some (client_frames sc)) with Some _ => true | None => false end.

(* likewise for COPY data: the payloads handed to a handler are, in order and each at most once, bodies of complete
   CopyData messages the client sent within the limit *)
Definition data_of (f : frame) : option bytes :=
  match f with FMsg t body => if Byte.eqb t x64 then Some body else None | _ => None end.
Fixpoint match_data (b : bytes) (fs : list frame) : option (list frame) :=
  match fs with
  | [] => None
  | f :: r => match data_of f with
              | Some b' => if bytes_eqb b b' then Some r else match_data b r
              | None => match_data b r
              end
  end.
Definition db_step (st : option (list frame)) (e : ev) : option (list frame) :=
  match st, e with
  | Some fs, CbOp (OData b) => match_data b fs
  | _, _ => st
  end.
Definition oracle_data_budget (sc : scase) (log : list ev) : bool :=
  match fold_left db_step log (Some (client_frames sc)) with Some _ => true | None => false end.

(* ---------- C05: the inside of a simple-query cycle ---------- *)
Record qstate := { q_err : bool; q_exec : bool; q_rows : Z; q_closed : bool;
                   q_pend : Z (* 0 none, 1 DataRow, 2 Complete, 3 CopyIn *); q_ok : bool }.
Definition q0 : qstate := {| q_err := false; q_exec := false; q_rows := 0; q_closed := false; q_pend := 0; q_ok := true |}.
Definition q_fail (s : qstate) : qstate :=
  {| q_err := q_err s; q_exec := q_exec s; q_rows := q_rows s; q_closed := q_closed s; q_pend := q_pend s; q_ok := false |}.

Definition q_step (s : qstate) (e : ev) : qstate :=
  if negb (q_ok s) then s else
  match e with
  | Out (BRowDesc _) =>
      if q_err s || negb (q_pend s =? 0) then q_fail s
      else {| q_err := false; q_exec := false; q_rows := 0; q_closed := false; q_pend := 0; q_ok := true |}
  | CbExec _ _ =>
      if q_err s || negb (q_pend s =? 0) then q_fail s
      else {| q_err := false; q_exec := true; q_rows := 0; q_closed := false; q_pend := 0; q_ok := true |}
  | Out (BDataRow _) =>
      if q_err s || negb (q_exec s) || q_closed s || negb (q_pend s =? 0) then q_fail s
      else {| q_err := false; q_exec := true; q_rows := q_rows s; q_closed := false; q_pend := 1; q_ok := true |}
  | Out (BComplete _) =>
      if q_err s || negb (q_exec s) || q_closed s || negb (q_pend s =? 0) then q_fail s
      else {| q_err := false; q_exec := true; q_rows := q_rows s; q_closed := false; q_pend := 2; q_ok := true |}
  | Out (BCopyIn _ _) =>
      if q_err s || negb (q_exec s) || q_closed s || negb (q_pend s =? 0) then q_fail s
      else {| q_err := false; q_exec := true; q_rows := q_rows s; q_closed := false; q_pend := 3; q_ok := true |}
  | CbOp OOk =>
      if q_pend s =? 1 then {| q_err := q_err s; q_exec := true; q_rows := q_rows s + 1; q_closed := false; q_pend := 0; q_ok := true |}
      else if q_pend s =? 2 then {| q_err := q_err s; q_exec := true; q_rows := q_rows s; q_closed := true; q_pend := 0; q_ok := true |}
      else if q_pend s =? 3 then {| q_err := q_err s; q_exec := true; q_rows := q_rows s; q_closed := q_closed s; q_pend := 0; q_ok := true |}
      else (* Empty(): allowed only on an open writer without rows; closes it *)
        if q_closed s || negb (q_rows s =? 0) then q_fail s
        else {| q_err := q_err s; q_exec := true; q_rows := 0; q_closed := true; q_pend := 0; q_ok := true |}
  | CbOp (OWritten n) => if (n =? q_rows s) && (q_pend s =? 0) then s else q_fail s
  | CbOp (OErr _) => if q_pend s =? 0 then s else q_fail s
  | CbOp _ => s
  | Out (BError _) =>
      if q_err s || negb (q_pend s =? 0) then q_fail s
      else {| q_err := true; q_exec := false; q_rows := 0; q_closed := true; q_pend := 0; q_ok := true |}
  | Out (BReady _) => if q_pend s =? 0 then s else q_fail s
  | CbParse _ => if q_err s then q_fail s else s
  | Out BEmptyQuery => s
  | Consume => s
  | _ => q_fail s
  end.

(* a Query turn: EmptyQueryResponse+ReadyForQuery alone, or parse then the cycle grammar *)
Definition cycle_ok (evs : list ev) : bool :=
  match evs with
  | [Out BEmptyQuery; Out (BReady _)] => true
  | CbParse _ :: rest =>
      let s := fold_left q_step rest q0 in
      q_ok s && shape_simple (outs evs) && negb (existsb (fun m => match m with BEmptyQuery => true | _ => false end) (outs evs))
  | _ => false
  end.

Fixpoint cycles_ok (fs : list frame) (ts : list (list ev)) : bool :=
  match fs, ts with
  | FMsg t body :: fr, evs :: tr =>
      (if Byte.eqb t x51 && wf_client (FMsg t body) && negb (existsb is_copyin (outs evs))
       then match filter (fun e => negb (is_closed_ev e)) evs with
            | [] => true      (* discarded while skipping to Sync: judged by the turn discipline *)
            | evs' => cycle_ok evs'
            end
       else true)
      && cycles_ok fr tr
  | _ :: fr, _ :: tr => cycles_ok fr tr
  | _, _ => true
  end.

Definition oracle_C05 (sc : scase) (log : list ev) : bool :=
  oracle_turns sc log &&
  (if t_copy (turn_verdict sc log) then true
   else match turns log with _ :: ts => cycles_ok (client_frames sc) ts | [] => true end).

(* ---------- C01: authentication gate ---------- *)
Definition authenticated_ev (e : ev) : bool :=
  match e with
  | Out (BAuth c) => c =? 0
  | Out (BParamStatus _ _) | Out (BReady _) => true
  | CbMw _ | CbParse _ | CbExec _ _ | CbOp _ | CbTerminate => true
  | _ => false
  end.

(* events before the first authenticated-phase event *)
Fixpoint before_auth (l : list ev) : list ev * list ev :=
  match l with
  | [] => ([], [])
  | e :: r => if authenticated_ev e then ([], l) else let (a, b) := before_auth r in (e :: a, b)
  end.

(* the password the client actually sent: the packet after the startup packet
   must be a complete 'p' message within the limit whose body starts with a C string *)
Definition sent_password (sc : scase) : option bytes :=
  match untyped (sc_limit sc) (sc_raw sc) with
  | Some (_, t :: a :: b :: c :: d :: r) =>
      let size := rd32 a b c d - 4 in
      if (size <? 0) || (size >? eff_limit (sc_limit sc)) || negb (Byte.eqb t x70) then None
      else match takeZ size r with
           | Some (body, _) => match take_cstr body with Some (pw, _) => Some pw | None => None end
           | None => None
           end
  | _ => None
  end.

(* the database and user THIS connection named in its startup packet (last assignment wins, missing = "") *)
Definition sent_ident (sc : scase) : option (bytes * bytes) :=
  match untyped (sc_limit sc) (sc_raw sc) with
  | Some (body, _) =>
      match p_u32 body with
      | Some (_, after) =>
          match read_params (S (List.length after)) after with
          | Some ps => Some (param_get (bs "database") ps, param_get (bs "user") ps)
          | None => None
          end
      | None => None
      end
  | None => None
  end.

Definition oracle_C01 (sc : scase) (log : list ev) : bool :=
  no_crash log &&
  (* the validator only ever sees the password that was sent in a well-formed password message,
     together with the database and user of this connection's own startup packet *)
  forallb (fun e => match e with
                    | CbValidate db user given =>
                        match sent_password sc with Some pw => bytes_eqb pw given | None => false end &&
                        match sent_ident sc with Some (d, u) => bytes_eqb d db && bytes_eqb u user | None => false end
                    | _ => true end) log &&
  match sc_auth sc with
  | None => true
  | Some (mode, pw) =>
      let validations := filter (fun e => match e with CbValidate _ _ _ => true | _ => false end) log in
      let accepted :=
        existsb (fun e => match e with
                          | CbValidate _ _ given => (mode =? 1) || ((mode =? 0) && bytes_eqb given pw)
                          | _ => false end) validations in
      let (pre, post) := before_auth log in
      (* the authenticated phase is entered only after an accepting validation *)
      (match post with
       | [] => true
       | _ => existsb (fun e => match e with
                                | CbValidate _ _ given => (mode =? 1) || ((mode =? 0) && bytes_eqb given pw)
                                | _ => false end) pre
       end) &&
      (* not accepted: no AuthenticationOk, closed, nothing but the validator ran *)
      (if accepted then true
       else negb (existsb (fun m => match m with BAuth c => c =? 0 | _ => false end) (outs log)) &&
            ends_closed log &&
            all_b (fun e => match e with CbValidate _ _ _ => true | _ => false end) (cbs log) &&
            (* a wrong password (validator said no) is reported with class 28 *)
            (match validations with
             | [] => negb (existsb is_error (outs log))
             | _ => if (mode =? 3) then true
                    else existsb (fun m => match efield x43 m with
                                           | Some (a :: b :: _) => Byte.eqb a x32 && Byte.eqb b x38
                                           | _ => false end) (outs log)
             end))
  end.

(* ---------- C12: startup negotiation ---------- *)
Definition pstatus_of (log : list ev) : list (bytes * bytes) :=
  flat_map (fun m => match m with BParamStatus k v => [(k, v)] | _ => [] end) (outs log).

Fixpoint keys_distinct (l : list (bytes * bytes)) : bool :=
  match l with
  | [] => true
  | (k, _) :: r => negb (existsb (fun kv => bytes_eqb k (fst kv)) r) && keys_distinct r
  end.

Definition pair_in (kv : bytes * bytes) (l : list (bytes * bytes)) : bool :=
  existsb (fun x => bytes_eqb (fst kv) (fst x) && bytes_eqb (snd kv) (snd x)) l.

(* the expected set, from the property text *)
Definition expected_params (sc : scase) (user : bytes) : list (bytes * bytes) :=
  let forced := [(bs "server_encoding", bs "UTF8"); (bs "client_encoding", bs "UTF8");
                 (bs "is_superuser", bs "off"); (bs "session_authorization", user)] ++
                (match sc_version sc with [] => [] | v => [(bs "server_version", v)] end) in
  forced ++ filter (fun kv => negb (existsb (fun f => bytes_eqb (fst kv) (fst f)) forced)) (sc_params sc).

(* the client's startup pairs, read off the startup packet by the protocol
   definition: after the 4-byte version, C strings in pairs until an empty key *)
Definition packet_pairs (L : Z) (s : bytes) : option (Z * option (list (bytes * bytes)) * bytes) :=
  match untyped L s with
  | Some (a :: b :: c :: d :: body, rest) =>
      Some (rd32 a b c d, read_params (S (List.length body)) body, rest)
  | _ => None
  end.

Definition startup_pairs (sc : scase) : option (list (bytes * bytes)) :=
  match packet_pairs (sc_limit sc) (sc_raw sc) with
  | Some (v, ps, rest) =>
      if v =? 80877102 then None                       (* CancelRequest *)
      else if v =? 80877103 then                       (* SSLRequest answered with N *)
        if sc_tls sc then None
        else match packet_pairs (sc_limit sc) rest with
             | Some (v2, ps2, _) => if v2 =? 80877102 then None else ps2
             | None => None
             end
      else ps
  | None => None
  end.

Fixpoint span {A} (p : A -> bool) (l : list A) : list A * list A :=
  match l with
  | x :: r => if p x then let (a, b) := span p r in (x :: a, b) else ([], l)
  | [] => ([], [])
  end.

Definition oracle_C12 (sc : scase) (log : list ev) : bool :=
  no_crash log &&
  let ps := pstatus_of log in
  let readies := count is_ready (outs log) in
  match startup_pairs sc with
  | None => (* malformed startup: no reply, no callback *)
      (match outs log with [] => true | _ => false end) && (match cbs log with [] => true | _ => false end)
  | Some pairs =>
      let user := param_get (bs "user") pairs in
      match ps with
      | [] => true     (* the session did not get that far (auth failure, early close): judged by C01 *)
      | _ =>
          keys_distinct ps &&
          all_b (fun kv => pair_in kv ps) (expected_params sc user) &&
          all_b (fun kv => pair_in kv (expected_params sc user)) ps &&
          (* the block is contiguous, after the authentication exchange and before the first ReadyForQuery *)
          (let ms := outs log in
           let (pre, rest) := span (fun m => match m with BAuth _ => true | _ => false end) ms in
           let (blk, rest2) := span (fun m => match m with BParamStatus _ _ => true | _ => false end) rest in
           (lenZ blk =? lenZ ps) &&
           (match rest2 with
            | [] => true
            | z :: _ => is_ready z || (match cfg_mws (cfg_of_case sc) with [] => false | _ => true end)
            end))
      end
  end.

(* ---------- C10: the limit applies to the startup packet as to every other message ---------- *)
(* a startup packet the protocol definition accepts (length within the limit, parameter
   block well formed) on a server without password authentication whose middlewares all
   succeed must be served: the first ReadyForQuery is sent *)
Definition startup_served (sc : scase) (log : list ev) : bool :=
  match startup_pairs sc, sc_auth sc with
  | Some _, None => if forallb (fun ok : bool => ok) (sc_mws sc) then existsb is_ready (outs log) else true
  | _, _ => true
  end.
Definition oracle_C10 (sc : scase) (log : list ev) : bool := oracle_turns sc log && startup_served sc log.

Fixpoint list_z_eqb (a b : list Z) : bool :=
  match a, b with
  | [], [] => true
  | x :: a', y :: b' => (x =? y) && list_z_eqb a' b'
  | _, _ => false
  end.

(* ---------- C07 / C08: names, parameters and formats (abstract namespace) ---------- *)
Record sdef := { sd_sid : Z; sd_cols : list column; sd_poids : list Z }.
Record pdef := { pd_stmt : sdef; pd_pf : list Z; pd_vals : list (option bytes); pd_rf : list Z }.

(* the abstract namespace: partial functions from names *)
Record nspace := { ns_stmt : bytes -> option sdef; ns_portal : bytes -> option pdef; ns_ok : bool; ns_why : Z }.
Definition ns0 : nspace := {| ns_stmt := fun _ => None; ns_portal := fun _ => None; ns_ok := true; ns_why := 0 |}.
Definition upd {A} (f : bytes -> option A) (k : bytes) (v : option A) : bytes -> option A :=
  fun x => if bytes_eqb x k then v else f x.
Definition ns_fail (n : nspace) (why : Z) : nspace :=
  {| ns_stmt := ns_stmt n; ns_portal := ns_portal n; ns_ok := false; ns_why := (if ns_ok n then why else ns_why n) |}.
Definition ns_check (n : nspace) (b : bool) (why : Z) : nspace := if b then n else ns_fail n why.

(* the protocol's rule for one format code out of a list, for item i of n *)
Definition rule_fmt (codes : list Z) (n : nat) (i : nat) : option Z :=
  match codes with
  | [] => Some 0
  | [f] => Some f
  | _ => if Nat.eqb (List.length codes) n then nth_error codes i else None   (* other counts: not constrained *)
  end.

Fixpoint params_ok (pf : list Z) (n : nat) (i : nat) (sent : list (option bytes)) (got : list (Z * option bytes)) : bool :=
  match sent, got with
  | [], [] => true
  | v :: sr, (f, w) :: gr =>
      (match v, w with
       | None, None => true
       | Some a, Some b => bytes_eqb a b
       | _, _ => false
       end) &&
      (match rule_fmt pf n i with Some e => f =? e | None => true end) &&
      params_ok pf n (S i) sr gr
  | _, _ => false
  end.

Fixpoint rowdesc_fmts_ok (rf : list Z) (n : nat) (i : nat) (cols : list coldesc) : bool :=
  match cols with
  | [] => true
  | c :: r => (match rule_fmt rf n i with Some e => cd_fmt c =? e mod 65536 | None => true end) &&
              rowdesc_fmts_ok rf n (S i) r
  end.

Fixpoint list_names_ok (cols : list column) (cds : list coldesc) : bool :=
  match cols, cds with
  | [], [] => true
  | c :: cr, d :: dr => bytes_eqb (c_name c) (cd_name d) && (cd_oid d =? c_oid c mod 4294967296) && list_names_ok cr dr
  | _, _ => false
  end.

Definition describe_ok (d : sdef) (rf : list Z) (m : bmsg) : bool :=
  match sd_cols d, m with
  | [], BNoData => true
  | _ :: _, BRowDesc cds =>
      (lenZ cds =? lenZ (sd_cols d)) &&
      list_names_ok (sd_cols d) cds && rowdesc_fmts_ok rf (List.length cds) 0 cds
  | _, _ => false
  end.

Definition execs (evs : list ev) : list (Z * list (Z * option bytes)) :=
  flat_map (fun e => match e with CbExec sid ps => [(sid, ps)] | _ => [] end) evs.

(* one client message and the events it caused, against the abstract namespace *)
Definition ns_step (sc : scase) (n : nspace) (f : frame) (evs0 : list ev) : nspace :=
  let evs := filter (fun e => negb (is_closed_ev e)) evs0 in
  if negb (ns_ok n) then n else
  match evs, f with
  | [], _ => n                                   (* discarded / no reply: judged by the turn discipline *)
  | _, FMsg t body =>
      let ms := outs evs in
      if negb (wf_client f) then n
      else if Byte.eqb t x50 then                (* Parse *)
        match take_cstr body with
        | Some (name, l1) =>
            match take_cstr l1 with
            | Some (q, _) =>
                match ms with
                | [BParseComplete] =>
                    match lookup_parse (sc_parse sc) q with
                    | POk [s] =>
                        {| ns_stmt := upd (ns_stmt n) name (Some {| sd_sid := s_id s; sd_cols := s_cols s; sd_poids := s_poids s |});
                           ns_portal := ns_portal n; ns_ok := true; ns_why := 0 |}
                    | _ => ns_fail n 201          (* ParseComplete although the parser did not yield one statement *)
                    end
                | _ => n
                end
            | None => n end
        | None => n end
      else if Byte.eqb t x42 then                (* Bind *)
        match decode_bind_raw body with
        | Some b =>
            match ns_stmt n (br_stmt b), ms with
            | Some d, [BBindComplete] =>
                {| ns_stmt := ns_stmt n;
                   ns_portal := upd (ns_portal n) (br_portal b)
                                    (Some {| pd_stmt := d; pd_pf := br_pf b; pd_vals := br_vals b; pd_rf := br_rf b |});
                   ns_ok := true; ns_why := 0 |}
            | Some _, _ => ns_fail n 202          (* Bind of a defined statement must succeed *)
            | None, [BError _] => n
            | None, _ => ns_fail n 203            (* unknown statement must be an ErrorResponse *)
            end
        | None => n end
      else if Byte.eqb t x44 then                (* Describe *)
        match body with
        | k :: l1 =>
            match take_cstr l1 with
            | Some (name, _) =>
                if Byte.eqb k x53 then
                  match ns_stmt n name, ms with
                  | Some d, [BParamDesc oids; m2] =>
                      ns_check n (list_z_eqb oids (map (fun o => o mod 4294967296) (sd_poids d)) && describe_ok d [] m2) 204
                  | Some _, _ => ns_fail n 205
                  | None, [BError _] => n
                  | None, _ => ns_fail n 206
                  end
                else if Byte.eqb k x50 then
                  match ns_portal n name, ms with
                  | Some p, [m1] => ns_check n (describe_ok (pd_stmt p) (pd_rf p) m1) 207
                  | Some _, _ => ns_fail n 208
                  | None, [BError _] => n
                  | None, _ => ns_fail n 209
                  end
                else n
            | None => n end
        | [] => n end
      else if Byte.eqb t x45 then                (* Execute *)
        match take_cstr body with
        | Some (name, _) =>
            match ns_portal n name, execs evs with
            | Some p, [(sid, got)] =>
                ns_check n ((sid =? sd_sid (pd_stmt p)) &&
                            params_ok (pd_pf p) (List.length (pd_vals p)) 0 (pd_vals p) got) 210
            | Some _, _ => ns_fail n 211          (* the bound statement must run exactly once *)
            | None, [] => ns_check n (shape_one is_error ms) 212
            | None, _ => ns_fail n 213            (* nothing may run for an unknown portal *)
            end
        | None => n end
      else if Byte.eqb t x43 then                (* Close *)
        match body with
        | k :: l1 =>
            match take_cstr l1, ms with
            | Some (name, _), [BCloseComplete] =>
                if Byte.eqb k x53 then
                  {| ns_stmt := upd (ns_stmt n) name None; ns_portal := ns_portal n; ns_ok := true; ns_why := 0 |}
                else if Byte.eqb k x50 then
                  {| ns_stmt := ns_stmt n; ns_portal := upd (ns_portal n) name None; ns_ok := true; ns_why := 0 |}
                else ns_fail n 214
            | _, _ => n
            end
        | [] => n end
      else n
  | _, _ => n
  end.

Fixpoint ns_fold (sc : scase) (n : nspace) (fs : list frame) (ts : list (list ev)) : nspace :=
  match fs, ts with
  | f :: fr, t :: tr => ns_fold sc (ns_step sc n f t) fr tr
  | _, _ => n
  end.

Definition names_verdict (sc : scase) (log : list ev) : nspace :=
  match turns log with
  | _ :: ts => ns_fold sc ns0 (client_frames sc) ts
  | [] => ns0
  end.

(* C07 and C08 share the abstract namespace: which statement runs, with which
   parameters, tagged by which format, described with which result formats *)
Definition oracle_names (sc : scase) (log : list ev) : bool :=
  oracle_turns sc log && ns_ok (names_verdict sc log).

(* ---------- C13: COPY-in ---------- *)
Definition opres_evs (evs : list ev) : list opres :=
  flat_map (fun e => match e with CbOp r => [r] | _ => [] end) evs.

Definition copy_turn_ok (f : frame) (evs0 : list ev) : bool :=
  let evs := filter (fun e => negb (is_closed_ev e)) evs0 in
  let ms := outs evs in
  (count is_error ms <=? 1) && (count is_ready ms <=? 1) &&
  (match rev ms with z :: _ => if existsb is_ready ms then is_ready z else true | [] => true end) &&
  match f with
  | FMsg t body =>
      let datas := flat_map (fun r => match r with OData b => [b] | _ => [] end) (opres_evs evs) in
      (* a payload handed to the handler is the payload of this very CopyData message *)
      (if Byte.eqb t x64 then all_b (fun b => bytes_eqb b body) datas && (lenZ datas <=? 1)
       else match datas with [] => true | _ => false end) &&
      (* CopyFail / foreign messages never surface as success or end-of-stream *)
      (if Byte.eqb t x66 then
         all_b (fun r => match r with OEof | OData _ => false | _ => true end)
               (match opres_evs evs with r :: _ => [r] | [] => [] end)
       else true)
  | _ => true
  end.

Fixpoint copy_turns_ok (fs : list frame) (ts : list (list ev)) : bool :=
  match fs, ts with
  | f :: fr, t :: tr => copy_turn_ok f t && copy_turns_ok fr tr
  | _, _ => true
  end.

(* data arrives in order: the sequence of payloads seen by handlers is a
   subsequence-in-order of the CopyData payloads sent *)
Fixpoint in_order (seen sent : list bytes) : bool :=
  match seen with
  | [] => true
  | x :: sr =>
      (fix find (l : list bytes) : bool :=
         match l with
         | [] => false
         | y :: lr => if bytes_eqb x y then in_order sr lr else find lr
         end) sent
  end.

(* every (columns, requested format) pair of a statement that starts a COPY *)
Definition copy_requests (sc : scase) : list (nat * Z) :=
  flat_map (fun e => match snd e with
                     | POk ss => flat_map (fun s => flat_map (fun o => match o with
                                                                      | HCopyIn f => [(List.length (s_cols s), f)]
                                                                      | _ => [] end) (s_prog s)) ss
                     | PErr _ => []
                     end) (sc_parse sc).

Definition copyin_ok (sc : scase) (m : bmsg) : bool :=
  match m with
  | BCopyIn f cols =>
      existsb (fun r => (f =? snd r mod 256) && Nat.eqb (List.length cols) (fst r) &&
                        forallb (fun c => c =? snd r mod 65536) cols) (copy_requests sc)
  | _ => true
  end.

(* The same per-turn rules as [copy_turn_ok]/[copy_turns_ok], written as ONE left-to-right scan of the
   log next to the client's frames (the k-th Consume marker opens the turn of the k-th frame):
   per turn at most one ErrorResponse, nothing after a ReadyForQuery, a payload handed to the
   handler is the payload of this turn's CopyData message (at most one per turn — so payloads
   arrive in order, each once), and the first result a handler sees in the turn of a CopyFail is
   neither success nor end-of-stream.  Turns beyond the client's frames and the startup turn are
   not judged. *)
Record cmon := { m_rem : list frame; m_cur : option frame; m_live : bool;
                 m_err : bool; m_rdy : bool; m_data : bool; m_op : bool; m_ok : bool }.
Definition mon_init (fs : list frame) : cmon :=
  {| m_rem := fs; m_cur := None; m_live := false; m_err := false; m_rdy := false; m_data := false; m_op := false; m_ok := true |}.
Definition mon_fail (m : cmon) : cmon :=
  {| m_rem := m_rem m; m_cur := m_cur m; m_live := m_live m; m_err := m_err m; m_rdy := m_rdy m; m_data := m_data m; m_op := m_op m; m_ok := false |}.

Definition mon_step (m : cmon) (e : ev) : cmon :=
  if negb (m_ok m) then m else
  match e with
  | Consume =>
      match m_rem m with
      | f :: r => {| m_rem := r; m_cur := Some f; m_live := true; m_err := false; m_rdy := false; m_data := false; m_op := false; m_ok := true |}
      | [] => {| m_rem := []; m_cur := None; m_live := false; m_err := false; m_rdy := false; m_data := false; m_op := false; m_ok := true |}
      end
  | Out b =>
      if negb (m_live m) then m
      else if m_rdy m then mon_fail m
      else if is_error b then
        (if m_err m then mon_fail m
         else {| m_rem := m_rem m; m_cur := m_cur m; m_live := true; m_err := true; m_rdy := false; m_data := m_data m; m_op := m_op m; m_ok := true |})
      else if is_ready b then
        {| m_rem := m_rem m; m_cur := m_cur m; m_live := true; m_err := m_err m; m_rdy := true; m_data := m_data m; m_op := m_op m; m_ok := true |}
      else m
  | CbOp r =>
      if negb (m_live m) then m
      else
        let fail_first :=
          negb (m_op m) &&
          (match m_cur m with Some (FMsg t _) => Byte.eqb t x66 | _ => false end) &&
          (match r with OEof | OData _ => true | _ => false end) in
        let bad_data :=
          match r, m_cur m with
          | OData b, Some (FMsg t body) => negb (Byte.eqb t x64 && bytes_eqb b body && negb (m_data m))
          | _, _ => false
          end in
        if fail_first || bad_data then mon_fail m
        else {| m_rem := m_rem m; m_cur := m_cur m; m_live := true; m_err := m_err m; m_rdy := m_rdy m;
                m_data := m_data m || (match r with OData _ => true | _ => false end); m_op := true; m_ok := true |}
  | _ => m
  end.

Definition copy_mon (fs : list frame) (log : list ev) : cmon := fold_left mon_step log (mon_init fs).

Definition oracle_C13 (sc : scase) (log : list ev) : bool :=
  no_crash log && forallb (copyin_ok sc) (outs log) && m_ok (copy_mon (client_frames sc) log).

(* the original per-turn formulation, kept for reference and evaluated next to the scan *)
Definition oracle_C13_turns (sc : scase) (log : list ev) : bool :=
  match turns log with
  | _ :: ts =>
      copy_turns_ok (client_frames sc) ts &&
      in_order (flat_map (fun r => match r with OData b => [b] | _ => [] end) (opres_evs log))
               (flat_map (fun f => match f with FMsg t b => if Byte.eqb t x64 then [b] else [] | _ => [] end)
                         (client_frames sc))
  | [] => true
  end.

(* Three further rules of the property, as a second scan (evaluated on every log next to [copy_mon]):
   (A) end-of-stream is what CopyDone means: the first result a handler sees in the turn of a message
       other than CopyDone, Flush and Sync is not io.EOF (a Terminate, a Query, ... inside a COPY is an error);
   (B) between a CopyInResponse and the next message the server writes, the turn of a message exceeding
       the size limit is never silent: the handler's Read reports it (or the command loop answers it);
   (C) nothing is dropped on the way to a reading handler: between the start of a statement function and any
       result it sees, no client message other than Flush/Sync passed without a reply and without a result
       (a CopyData the reader skipped, whatever its payload spells, is a violation). *)
Record cmon2 := { n_rem : list frame; n_cur : option frame; n_live : bool; n_op : bool;
                  n_copy : bool; n_silent : bool; n_gap : bool; n_ok : bool }.
Definition eof_exempt (c : option frame) : bool :=
  match c with
  | Some (FMsg t _) => Byte.eqb t x63 || Byte.eqb t x48 || Byte.eqb t x53
  | _ => true
  end.
Definition hs_frame (c : option frame) : bool :=
  match c with Some (FMsg t _) => Byte.eqb t x48 || Byte.eqb t x53 | _ => false end.
Definition is_over (c : option frame) : bool :=
  match c with Some (FOver _ _ None) | Some (FBad _ _) => true | _ => false end.
Definition mon2_step (m : cmon2) (e : ev) : cmon2 :=
  if negb (n_ok m) then m else
  match e with
  | Consume =>
      let ok := negb (n_live m && n_copy m && n_silent m && is_over (n_cur m)) in
      let gap := n_gap m || (n_live m && n_silent m && negb (hs_frame (n_cur m))) in
      match n_rem m with
      | f :: r => {| n_rem := r; n_cur := Some f; n_live := true; n_op := false; n_copy := n_copy m; n_silent := true; n_gap := gap; n_ok := ok |}
      | [] => {| n_rem := []; n_cur := None; n_live := false; n_op := false; n_copy := n_copy m; n_silent := true; n_gap := gap; n_ok := ok |}
      end
  | Out b =>
      {| n_rem := n_rem m; n_cur := n_cur m; n_live := n_live m; n_op := n_op m;
         n_copy := match b with BCopyIn _ _ => true | _ => false end; n_silent := false; n_gap := n_gap m; n_ok := true |}
  | CbExec _ _ =>
      {| n_rem := n_rem m; n_cur := n_cur m; n_live := n_live m; n_op := n_op m;
         n_copy := n_copy m; n_silent := n_silent m; n_gap := false; n_ok := true |}
  | CbOp r =>
      let bad := (n_live m && negb (n_op m) && negb (eof_exempt (n_cur m)) && (match r with OEof => true | _ => false end)) || n_gap m in
      {| n_rem := n_rem m; n_cur := n_cur m; n_live := n_live m; n_op := true; n_copy := n_copy m; n_silent := false; n_gap := n_gap m; n_ok := negb bad |}
  | _ => m
  end.
Definition oracle_C13_strict (sc : scase) (log : list ev) : bool :=
  n_ok (fold_left mon2_step log
          {| n_rem := client_frames sc; n_cur := None; n_live := false; n_op := false; n_copy := false; n_silent := true; n_gap := false; n_ok := true |}).

(* ---------- C19: session lifecycle ---------- *)
Fixpoint mw_seq (l : list ev) (i : Z) : bool :=
  match l with
  | [] => true
  | CbMw j :: r => (j =? i) && mw_seq r (i + 1)
  | _ :: r => mw_seq r i
  end.

Fixpoint first_fail_from (l : list bool) (i : Z) : option Z :=
  match l with [] => None | ok :: r => if ok then first_fail_from r (i + 1) else Some i end.
Definition first_fail (mws : list bool) : option Z := first_fail_from mws 0.

Definition is_mw_ev (e : ev) : bool := match e with CbMw _ => true | _ => false end.
Definition is_served_ev (e : ev) : bool := match e with Out (BReady _) | CbParse _ | CbExec _ _ => true | _ => false end.
Definition is_term_ev (e : ev) : bool := match e with CbTerminate => true | _ => false end.

(* the log up to the first middleware call, and from it on *)
Fixpoint cut_mw (l : list ev) : list ev * list ev :=
  match l with
  | [] => ([], [])
  | e :: r => if is_mw_ev e then ([], l) else let (a, b) := cut_mw r in (e :: a, b)
  end.
(* what follows the first run of the terminate hook *)
Fixpoint after_term (l : list ev) : list ev :=
  match l with [] => [] | e :: r => if is_term_ev e then r else after_term r end.

Definition oracle_C19 (sc : scase) (log : list ev) : bool :=
  no_crash log &&
  let mws := filter is_mw_ev log in
  (* registration order, each at most once *)
  mw_seq log 0 &&
  (* middlewares run after authentication + parameters and before the first ReadyForQuery / command *)
  (let (pre, post) := cut_mw log in
   (match post with
    | [] => true
    | _ => negb (existsb is_served_ev pre) &&
           existsb (fun e => match e with Out (BAuth c) => c =? 0 | _ => false end) pre
    end)) &&
  (* all of them ran before anything is served; a failing one ends the connection *)
  (let served := existsb is_served_ev log in
   match first_fail (sc_mws sc) with
   | Some j => negb served && (if existsb is_mw_ev log then (lenZ mws =? j + 1) && ends_closed log else true)
   | None => if served then lenZ mws =? lenZ (sc_mws sc) else true
   end) &&
  (* Terminate: the hook runs at most once and nothing happens afterwards *)
  (count is_term_ev log <=? 1) &&
  all_b (fun e => match e with Closed | Consume => true | _ => false end) (after_term log) &&
  (match sc_term sc with
   | None => negb (existsb is_term_ev log)
   | Some _ => true
   end).

(* ---------- C09: row values decoded by an independent decoder ---------- *)
Definition the_stmt (sc : scase) : option stmt :=
  match sc_parse sc with
  | (_, POk [s]) :: _ => Some s
  | _ => None
  end.

Fixpoint fields_ok (cols : list column) (fmts : list Z) (fs : list (option bytes)) (vs : list value) : bool :=
  match cols, fmts, fs, vs with
  | [], [], [], [] => true
  | c :: cr, f :: fr, x :: xr, v :: vr =>
      (match x, dval_of_value v with
       | None, Some DNull => true
       | Some b, Some d =>
           (match d with DNull => false | _ => true end) &&
           (match decode_value (c_oid c) f b with
            | Some d' => match d, d' with
                         | DInt a, DInt a' => a =? a'
                         | DBool a, DBool a' => Bool.eqb a a'
                         | DBytes a, DBytes a' => bytes_eqb a a'
                         | _, _ => false
                         end
            | None => false
            end)
       | _, _ => false
       end) && fields_ok cr fr xr vr
  | _, _, _, _ => false
  end.

(* the announced formats are kept in a queue: a client may describe several portals of the
   statement before executing them (in the same order); each execution uses the oldest
   announcement not yet used and ends with its CommandComplete *)
Record c9state := { c9_queue : list (list Z); c9_left : list (list value); c9_ok : bool }.

Definition c9_step (s : stmt) (rows : list (list value)) (st : c9state) (m : bmsg) : c9state :=
  if negb (c9_ok st) then st else
  match m with
  | BRowDesc cds =>
      {| c9_queue := c9_queue st ++ [map cd_fmt cds]; c9_left := c9_left st;
         c9_ok := (lenZ cds =? lenZ (s_cols s)) &&
                  list_names_ok (s_cols s) cds |}
  | BDataRow fs =>
      match c9_queue st, c9_left st with
      | fmts :: _, vs :: r =>
          {| c9_queue := c9_queue st; c9_left := r; c9_ok := fields_ok (s_cols s) fmts fs vs |}
      | _, _ => {| c9_queue := c9_queue st; c9_left := []; c9_ok := false |}
      end
  | BComplete _ =>
      {| c9_queue := tl (c9_queue st); c9_left := rows; c9_ok := match c9_left st with [] => true | _ => false end |}
  | _ => st
  end.

(* every row of the (single, always succeeding) statement arrives as one DataRow
   whose field count equals the RowDescription's and whose fields decode, in the
   announced format, to the values written; NULLs are -1 *)
Definition oracle_C09 (sc : scase) (log : list ev) : bool :=
  no_crash log &&
  match the_stmt sc with
  | None => true
  | Some s =>
      (* rows holding a value that has no encoding are rejected by the writer and send nothing *)
      let rows := flat_map (fun o => match o with
                                     | HRow vs => if existsb (fun v => match v with VUnenc => true | _ => false end) vs then [] else [vs]
                                     | _ => [] end) (s_prog s) in
      c9_ok (fold_left (c9_step s rows) (outs log) {| c9_queue := []; c9_left := rows; c9_ok := true |})
  end.

(* ---------- streams of Sync, Flush and rejected messages (C10) ---------- *)
(* the frames of such a stream: Sync and Flush within the limit, and messages the server rejects — above the limit and
   present in full, or with a declared length below the minimum — of any type but Terminate *)
Definition plain_frame (f : frame) : bool :=
  match f with
  | FMsg t _ => Byte.eqb t x53 || Byte.eqb t x48
  | FOver t _ None => negb (Byte.eqb t x58)
  | FBad t _ => negb (Byte.eqb t x58)
  | _ => false
  end.
Definition is_sync_frame (f : frame) : bool := match f with FMsg t _ => Byte.eqb t x53 | _ => false end.

(* ReadyForQuery messages among the events *)
Definition readies (evs : list ev) : nat := List.length (filter is_ready (outs evs)).

Definition syncs (fs : list frame) : nat := List.length (filter is_sync_frame fs).
