(* OracleFactsAuth.v — the model satisfies the authentication-gate oracle [oracle_C01]. *)
Require Import Wire.Bytes Spec.BackendSpec Spec.BackendSpecFacts Wire.Errors Wire.Framing Wire.Session
  Wire.SessionFacts Wire.CommandFacts Wire.RobustFacts Wire.Case Spec.KindFacts Spec.Oracles Spec.OracleFacts.
From Coq Require Import String.
Local Open Scope string_scope.
Local Open Scope list_scope.
Local Open Scope Z_scope.

Definition is_validate (e : ev) : bool := match e with CbValidate _ _ _ => true | _ => false end.

Lemma sess_no_validate l : sess_evs l = true -> filter is_validate l = [] /\ existsb crashp l = false.
Proof.
  induction l as [|e r IH]; [auto|]. cbn [sess_evs forallb]. intros H. apply andb_prop in H as [H1 H2].
  destruct (IH H2) as [A B]. cbn [filter existsb]. rewrite A, B.
  destruct e as [m| | | | | | | | | | |]; try destruct m; cbn in *; try discriminate; auto.
Qed.

(* what follows the authentication exchange in the log of a session *)
Definition tail_ok (l : list ev) : Prop :=
  filter is_validate l = [] /\ existsb crashp l = false /\ ends_closed l = true.

Lemma app_tail_ok a b : filter is_validate a = [] -> existsb crashp a = false -> tail_ok b -> tail_ok (a ++ b).
Proof.
  intros A1 A2 (B1 & B2 & B3). unfold tail_ok, ends_closed in *.
  rewrite filter_app, !existsb_app, A1, A2, B1, B2, B3, orb_true_r. auto.
Qed.

Lemma plain_tail a : no_consume a = true -> filter is_validate a = [] -> tail_ok (a ++ [Closed]).
Proof.
  intros P V. apply app_tail_ok; [exact V|apply plain_no_crash; exact P|]. repeat split.
Qed.

Lemma run_mws_fail_nonempty : forall mws i evs, run_mws mws i = (evs, false) -> evs <> [].
Proof.
  induction mws as [|ok r IH]; intros i evs H; cbn [run_mws] in H; [discriminate|].
  destruct ok; [|injection H as <-; discriminate].
  destruct (run_mws r (i + 1)) as [e2 r2]. injection H as <- _. discriminate.
Qed.

Lemma pstatus_no_validate l :
  filter is_validate (map (fun kv : bytes * bytes => Out (BParamStatus (fst kv) (snd kv))) l) = [].
Proof. induction l as [|x l IH]; [reflexivity|exact IH]. Qed.

Lemma run_mws_no_validate : forall mws i, filter is_validate (fst (run_mws mws i)) = [].
Proof.
  induction mws as [|okk r IH]; intros i; cbn [run_mws]; [reflexivity|].
  destruct okk; [|reflexivity]. specialize (IH (i + 1)). destruct (run_mws r (i + 1)); exact IH.
Qed.

Definition is_mw (e : ev) : bool := match e with CbMw _ => true | _ => false end.
Lemma run_mws_all_mw : forall mws i, forallb is_mw (fst (run_mws mws i)) = true.
Proof.
  induction mws as [|okk r IH]; intros i; cbn [run_mws]; [reflexivity|].
  destruct okk; [|reflexivity]. specialize (IH (i + 1)). destruct (run_mws r (i + 1)); exact IH.
Qed.

Lemma session_tail c after s : text_safe c ->
  session c after s = [Closed] \/
  exists cparams aevs s' ok tl_,
    read_params (S (List.length after)) after = Some cparams /\
    auth_phase c cparams s = (aevs, s', ok) /\
    session c after s = aevs ++ tl_ /\ tail_ok tl_ /\
    (ok = false -> tl_ = [Closed]) /\
    (ok = true -> exists e r, tl_ = e :: r /\ authenticated_ev e = true).
Proof.
  intros Hts. unfold session.
  destruct (read_params (S (List.length after)) after) as [cparams|] eqn:Er; [right|left; reflexivity].
  destruct (auth_phase c cparams s) as [[aevs s'] ok] eqn:Ea.
  exists cparams, aevs, s', ok.
  destruct ok; cbn [negb].
  - set (pevs := map (fun kv : bytes * bytes => Out (BParamStatus (fst kv) (snd kv))) (server_params c (param_get (bs "user") cparams))).
    assert (Pp : no_consume pevs = true) by apply pstatus_plain.
    assert (Vp : filter is_validate pevs = []) by apply pstatus_no_validate.
    pose proof (run_mws_plain (cfg_mws c) 0) as Pm.
    pose proof (run_mws_no_validate (cfg_mws c) 0) as Vm.
    pose proof (run_mws_all_mw (cfg_mws c) 0) as Am.
    destruct (run_mws (cfg_mws c) 0) as [mevs mok] eqn:Em. cbn [fst] in Pm, Vm, Am.
    assert (First : forall X, exists e r, pevs ++ mevs ++ X = e :: r /\ authenticated_ev e = true \/ (pevs = [] /\ mevs = [])).
    { intros X. destruct pevs as [|e r] eqn:Ep.
      - destruct mevs as [|e r]; [exists Closed, []; right; auto|].
        exists e, (r ++ X). left. split; [reflexivity|].
        clear -Am. cbn [forallb] in Am. apply andb_prop in Am as [Am _]. destruct e; cbn in *; try discriminate; reflexivity.
      - exists e, (r ++ mevs ++ X). left. split; [reflexivity|].
        unfold pevs in Ep. destruct (server_params c _); [discriminate|]. injection Ep as <- _. reflexivity. }
    destruct mok; cbn [negb].
    + destruct (frames (cfg_limit c) s') as [fs tl] eqn:Ef.
      destruct (loop_kind c tl Hts (S (List.length fs)) st_init fs (Nat.lt_succ_diag_r _)) as (body & B1 & B2).
      destruct (sess_no_validate _ B1) as [B3 B4].
      exists (pevs ++ mevs ++ [Out ready] ++ loop (S (List.length fs)) c st_init fs tl).
      split; [reflexivity|]. split; [exact Ea|]. split; [reflexivity|]. split; [|split; [discriminate|]].
      * apply app_tail_ok; [exact Vp|apply plain_no_crash; exact Pp|].
        apply app_tail_ok; [exact Vm|apply plain_no_crash; exact Pm|].
        apply (app_tail_ok [Out ready]); [reflexivity|reflexivity|].
        destruct B2 as [-> | [-> _]]; (apply app_tail_ok; [exact B3|exact B4|repeat split]).
      * intros _. destruct (First ([Out ready] ++ loop (S (List.length fs)) c st_init fs tl)) as (e & r & [[E1 E2]|[E1 E2]]).
        -- exists e, r. auto.
        -- rewrite E1, E2. cbn [app]. do 2 eexists. split; [reflexivity|reflexivity].
    + exists (pevs ++ mevs ++ [Closed]).
      split; [reflexivity|]. split; [exact Ea|]. split; [reflexivity|]. split; [|split; [discriminate|]].
      * apply app_tail_ok; [exact Vp|apply plain_no_crash; exact Pp|]. apply plain_tail; assumption.
      * intros _. destruct (First [Closed]) as (e & r & [[E1 E2]|[E1 E2]]).
        -- exists e, r. auto.
        -- (* a failing chain has run at least one middleware *)
           exfalso. exact (run_mws_fail_nonempty _ _ _ Em E2).
  - exists [Closed]. split; [reflexivity|]. split; [exact Ea|]. split; [reflexivity|]. split; [repeat split|].
    split; [reflexivity|discriminate].
Qed.

Lemma no_validate_forall (P : bytes -> bytes -> bytes -> bool) l : filter is_validate l = [] ->
  forallb (fun e => match e with CbValidate db user given => P db user given | _ => true end) l = true.
Proof.
  induction l as [|e r IH]; [reflexivity|]. cbn [filter forallb]. destruct e; cbn [is_validate]; try (intros H; rewrite (IH H); reflexivity).
  discriminate.
Qed.

Lemma start_untyped c raw v after rest :
  start c raw = Some (v, after, rest) -> exists body, untyped (cfg_limit c) raw = Some (body, rest).
Proof.
  unfold start. destruct (untyped (cfg_limit c) raw) as [[body r0]|]; [|discriminate].
  destruct (p_u32 body) as [[v0 a0]|]; [|discriminate]. intros H. injection H as _ _ <-. eexists. reflexivity.
Qed.

Definition mode_ok (sc : scase) : Prop :=
  match sc_auth sc with Some (m, _) => 0 <= m <= 3 | None => True end.

Lemma no_crash_tail a tl_ : existsb crashp tl_ = false -> no_crash (a ++ tl_) = no_crash a.
Proof.
  intros H. unfold no_crash. rewrite existsb_app.
  change (existsb (fun e : ev => match e with Crash | OutOfFuel => true | _ => false end) tl_) with (existsb crashp tl_).
  rewrite H, orb_false_r. reflexivity.
Qed.

Lemma oracle_C01_accept sc m pw db user given tl_ :
  sc_auth sc = Some (m, pw) -> sent_password sc = Some given -> sent_ident sc = Some (db, user) ->
  (m =? 1) || ((m =? 0) && bytes_eqb given pw) = true ->
  filter is_validate tl_ = [] -> existsb crashp tl_ = false ->
  oracle_C01 sc ([Out (BAuth 3); CbValidate db user given; Out (BAuth 0)] ++ tl_) = true.
Proof.
  intros Ha Hs Hi Hacc T1 T2. unfold oracle_C01. rewrite Ha, (no_crash_tail _ _ T2), Hs, Hi.
  change (fun e : ev => match e with CbValidate _ _ _ => true | _ => false end) with is_validate.
  rewrite (forallb_app _ _ tl_), (no_validate_forall (fun db user given => _) _ T1), filter_app, T1.
  cbn [app forallb filter is_validate existsb before_auth authenticated_ev Z.eqb andb orb no_crash negb].
  rewrite !bytes_eqb_refl, !orb_false_r, Hacc. reflexivity.
Qed.

Theorem oracle_C01_model sc :
  mode_ok sc ->
  (forall v after rest, start (cfg_of_case sc) (sc_raw sc) = Some (v, after, rest) -> v <> version_ssl) ->
  oracle_C01 sc (run_case sc) = true.
Proof.
  intros Hm Hssl.
  assert (Short : oracle_C01 sc [Closed] = true) by (unfold oracle_C01; destruct (sc_auth sc) as [[m pw]|]; reflexivity).
  unfold run_case, serve.
  destruct (start (cfg_of_case sc) (sc_raw sc)) as [[[v after] rest]|] eqn:Es; [|exact Short].
  destruct (v =? version_cancel); [exact Short|].
  destruct (Z.eqb_spec v version_ssl) as [->|_]; [exfalso; eapply Hssl; eauto|].
  destruct (session_tail (cfg_of_case sc) after rest (case_text_safe sc)) as [->|(cparams & aevs & s' & ok & tl_ & Er & Ea & -> & (T1 & T2 & T3) & Tf & _)];
    [exact Short|].
  destruct (start_untyped _ _ _ _ _ Es) as [body0 Eu]. cbn [cfg_of_case cfg_limit] in Eu.
  unfold auth_phase in Ea. cbn [cfg_of_case cfg_auth cfg_limit] in Ea. unfold mode_ok in Hm.
  destruct (sc_auth sc) as [[m pw]|] eqn:Ha.
  - (* password authentication: every way the exchange can fail ends the connection at once *)
    assert (Fail0 : oracle_C01 sc ([Out (BAuth 3)] ++ [Closed]) = true) by (unfold oracle_C01; rewrite Ha; reflexivity).
    destruct rest as [|t [|a [|b [|c4 [|d r]]]]];
      try (injection Ea as <- _ <-; rewrite (Tf eq_refl); exact Fail0).
    destruct ((rd32 a b c4 d - 4 <? 0) || (rd32 a b c4 d - 4 >? eff_limit (sc_limit sc))) eqn:E1;
      [injection Ea as <- _ <-; rewrite (Tf eq_refl); exact Fail0|].
    destruct (takeZ (rd32 a b c4 d - 4) r) as [[body rest0]|] eqn:E2; [|injection Ea as <- _ <-; rewrite (Tf eq_refl); exact Fail0].
    destruct (Byte.eqb t x70) eqn:E3; cbn [negb] in Ea; [|injection Ea as <- _ <-; rewrite (Tf eq_refl); exact Fail0].
    destruct (take_cstr body) as [[given x]|] eqn:E4; [|injection Ea as <- _ <-; rewrite (Tf eq_refl); exact Fail0].
    assert (Hs : sent_password sc = Some given).
    { unfold sent_password. rewrite Eu, E1, E3, E2, E4. reflexivity. }
    assert (Hi : sent_ident sc = Some (param_get (bs "database") cparams, param_get (bs "user") cparams)).
    { unfold sent_ident. unfold start in Es. cbn [cfg_of_case cfg_limit] in Es.
      destruct (untyped (sc_limit sc) (sc_raw sc)) as [[bd rs]|]; [|discriminate].
      destruct (p_u32 bd) as [[v1 a1]|]; [|discriminate]. injection Es as _ <- _. rewrite Er. reflexivity. }
    assert (Rej : (m =? 1) || ((m =? 0) && bytes_eqb given pw) = false -> (m =? 3) = false ->
                  oracle_C01 sc ([Out (BAuth 3); CbValidate (param_get (bs "database") cparams) (param_get (bs "user") cparams) given;
                                  Out (err_msg (Some e_invalid_password))] ++ [Closed]) = true).
    { intros Hacc M3. unfold oracle_C01. rewrite Ha, Hs, Hi.
      cbn [app forallb filter existsb before_auth authenticated_ev Z.eqb andb orb no_crash negb].
      rewrite !bytes_eqb_refl, !orb_false_r, Hacc, M3. reflexivity. }
    unfold validator in Ea.
    destruct (m =? 0) eqn:M0.
    + destruct (bytes_eqb given pw) eqn:Epw; injection Ea as <- _ <-.
      * apply (oracle_C01_accept sc m pw); auto. rewrite M0, Epw. apply orb_true_r.
      * rewrite (Tf eq_refl). apply Z.eqb_eq in M0. subst m. apply Rej; reflexivity.
    + destruct (m =? 1) eqn:M1; [|destruct (m =? 2) eqn:M2]; injection Ea as <- _ <-.
      * apply (oracle_C01_accept sc m pw); auto. rewrite M1. reflexivity.
      * rewrite (Tf eq_refl). apply Z.eqb_eq in M2. subst m. apply Rej; reflexivity.
      * rewrite (Tf eq_refl). assert (m = 3) by (apply Z.eqb_neq in M0, M1, M2; lia). subst m.
        unfold oracle_C01. rewrite Ha, Hs, Hi.
        cbn [app forallb filter existsb before_auth authenticated_ev Z.eqb andb orb no_crash negb].
        rewrite !bytes_eqb_refl. reflexivity.
  - (* no authentication strategy: the oracle has nothing to demand beyond the absence of validations *)
    injection Ea as <- _ _. unfold oracle_C01. rewrite Ha, (no_crash_tail _ _ T2).
    rewrite (forallb_app _ _ tl_), (no_validate_forall (fun db user given => _) _ T1). reflexivity.
Qed.
