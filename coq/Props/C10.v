(* C10 — the message-size limit is enforced exactly and recoverably. *)
Require Import Wire.Bytes Spec.BackendSpec Spec.BackendSpecFacts Wire.Errors Wire.Framing Wire.Session
  Wire.SessionFacts Wire.CommandFacts Wire.WireFacts.
From Coq Require Import String.
Local Open Scope string_scope.
Local Open Scope list_scope.
Local Open Scope Z_scope.

(* a non-positive setting means the 16 MiB default *)
Theorem C10_default : forall L, L <= 0 -> eff_limit L = 16777216.
Proof. exact eff_limit_default. Qed.
Print Assumptions C10_default.

(* a message whose body is at most the limit is framed exactly as sent and the
   following bytes are framed independently of it *)
Theorem C10_within : forall f L t d r body rest,
  4 <= d < 4294967296 -> d - 4 <= eff_limit L -> takeZ (d - 4) r = Some (body, rest) ->
  frames_fuel (S f) L (t :: be32 d ++ r) =
  (FMsg t body :: fst (frames_fuel f L rest), snd (frames_fuel f L rest)).
Proof. exact frames_step_msg. Qed.
Print Assumptions C10_within.

(* a declared body above the limit is never handed on as a message: exactly the
   declared number of bytes is skipped and the next message is framed normally.
   d ranges over the whole uint32 domain; no arithmetic wraps (Z) *)
Theorem C10_exceeding : forall f L t d r skipped rest,
  4 <= d < 4294967296 -> d - 4 > eff_limit L -> takeZ (d - 4) r = Some (skipped, rest) ->
  frames_fuel (S f) L (t :: be32 d ++ r) =
  (FOver t (d - 4) None :: fst (frames_fuel f L rest), snd (frames_fuel f L rest)).
Proof. exact frames_step_over. Qed.
Print Assumptions C10_exceeding.

(* declared lengths below the 4-byte minimum are rejected without reading anything:
   the stream continues right after the length field *)
Theorem C10_below_minimum : forall f L t d r,
  0 <= d < 4 ->
  frames_fuel (S f) L (t :: be32 d ++ r) =
  (FBad t (d - 4) :: fst (frames_fuel f L r), snd (frames_fuel f L r)).
Proof. exact frames_step_bad. Qed.
Print Assumptions C10_below_minimum.

(* during a session: one ErrorResponse 54000 with severity ERROR (non-fatal), followed by
   ReadyForQuery exactly for non-extended messages; no callback; caches untouched;
   the loop continues with the next frame *)
Theorem C10_reply : forall c st t size evs st',
  do_oversize c st t size = (evs, st') -> st_discard st = false ->
  let e := err_msg (Some (e_size_exceeded (eff_limit (cfg_limit c)) size)) in
  (is_ext t = true -> outs evs = [e] /\ st_discard st' = true) /\
  (is_ext t = false -> outs evs = [e; ready] /\ st_discard st' = false) /\
  filter is_cb evs = [] /\ st_stmts st' = st_stmts st /\ st_portals st' = st_portals st.
Proof. exact do_oversize_spec. Qed.
Print Assumptions C10_reply.

Theorem C10_sqlstate : forall max size,
  get_code (e_size_exceeded max size) = bs "54000" /\
  default_severity (get_severity (e_size_exceeded max size)) = bs "ERROR".
Proof. exact size_exceeded_fields. Qed.

Theorem C10_continues : forall c st t size rest tl,
  exists evs st', cmd c st (FOver t size None) rest tl = (evs, st', rest, Continue) /\
                  cmd c st (FBad t size) rest tl = (evs, st', rest, Continue).
Proof.
  intros. unfold cmd. destruct (do_oversize c st t size) as [evs st'] eqn:E.
  exists evs, st'. auto.
Qed.
Print Assumptions C10_continues.

(* during startup the same condition ends the connection with no reply *)
Theorem C10_startup : forall L a b c d r,
  (rd32 a b c d - 4 <? 0) || (rd32 a b c d - 4 >? eff_limit L) = true ->
  untyped L (a :: b :: c :: d :: r) = None.
Proof. intros L a b c d r H. unfold untyped. rewrite H. reflexivity. Qed.
Print Assumptions C10_startup.

(* ---------- the whole connection against the executable oracle ---------- *)
Require Import Wire.RobustFacts Wire.Case Spec.Oracles Spec.OracleFacts Spec.OracleFactsStartup.

(* the model's log of every scriptable case without COPY handlers passes [oracle_C10]: the
   reply discipline for oversized messages (one ErrorResponse 54000 / ERROR, ReadyForQuery
   exactly for non-extended types, silence while skipping, no callback), and a startup
   packet the protocol definition accepts — within the limit, well-formed parameter block —
   on a server without password authentication whose middlewares succeed is served *)
Theorem C10_model_satisfies_oracle : forall sc,
  case_nocopy sc = true ->
  (forall v after rest, start (cfg_of_case sc) (sc_raw sc) = Some (v, after, rest) -> v <> version_ssl) ->
  oracle_C10 sc (run_case sc) = true.
Proof. exact oracle_C10_model. Qed.
Print Assumptions C10_model_satisfies_oracle.

(* the limit does not depend on the transport: behind an SSLRequest — inside the TLS session when the server has
   certificates, on the same plaintext connection when it has none — the connection is served by the very same
   configuration [c], hence under the very same limit, as a connection that starts with that byte stream *)
Theorem C10_same_limit_behind_sslrequest : forall c raw a r,
  start c raw = Some (version_ssl, a, r) ->
  (cfg_tls c = true -> forall plain v2 a2 r2 tls', start c plain = Some (v2, a2, r2) -> v2 <> version_ssl ->
     serve c raw (Some plain) = RawOut x53 :: serve c plain tls') /\
  (cfg_tls c = false -> forall tls tls' v2 a2 r2, start c r = Some (v2, a2, r2) -> v2 <> version_ssl ->
     serve c raw tls = RawOut x4e :: serve c r tls').
Proof.
  intros c raw a r S. split.
  - intros T plain v2 a2 r2 tls' S2 N. unfold serve at 1. rewrite S, T. cbn [Z.eqb]. f_equal.
    unfold serve. rewrite S2. destruct (Z.eqb_spec v2 version_cancel); [reflexivity|].
    destruct (Z.eqb_spec v2 version_ssl); [contradiction|reflexivity].
  - intros T tls tls' v2 a2 r2 S2 N. unfold serve at 1. rewrite S, T. cbn [Z.eqb]. f_equal.
    unfold serve. rewrite S2. destruct (Z.eqb_spec v2 version_cancel); [reflexivity|].
    destruct (Z.eqb_spec v2 version_ssl); [contradiction|reflexivity].
Qed.
Print Assumptions C10_same_limit_behind_sslrequest.

(* "the message after it is processed normally", over whole streams: when the client's stream consists of Sync and
   Flush messages and of REJECTED messages (above the limit and present in full, or with a declared length below the
   minimum; of any type but Terminate), in whatever order and number, and the connection got as far as handling its
   first command, then every Sync of the stream is answered by a ReadyForQuery in its own turn — a rejected message
   is skipped in exactly its extent and swallows nothing of what follows it. First for every log the executable
   reply-discipline oracle accepts (so also for logs observed on the implementation in lock-step), then for the
   model's log of every scriptable case. *)
Require Import Spec.OracleFactsSyncs.

Theorem C10_accepted_logs_answer_every_sync : forall sc log st ts,
  oracle_turns sc log = true -> forallb plain_frame (client_frames sc) = true ->
  turns log = st :: ts -> ts <> [] ->
  (syncs (client_frames sc) <= readies (List.concat ts))%nat.
Proof. exact oracle_turns_answers_syncs. Qed.
Print Assumptions C10_accepted_logs_answer_every_sync.

Theorem C10_rejected_messages_swallow_nothing : forall sc st ts,
  case_nocopy sc = true ->
  (forall v after rest, start (cfg_of_case sc) (sc_raw sc) = Some (v, after, rest) -> v <> version_ssl) ->
  forallb plain_frame (client_frames sc) = true ->
  turns (run_case sc) = st :: ts -> ts <> [] ->
  (syncs (client_frames sc) <= readies (List.concat ts))%nat.
Proof.
  intros sc st ts Hn Hs Hp Ht Hne.
  exact (oracle_turns_answers_syncs sc (run_case sc) st ts (oracle_turns_model_auth sc Hn Hs) Hp Ht Hne).
Qed.
Print Assumptions C10_rejected_messages_swallow_nothing.

(* non-vacuity: a stream of a too-short length, a Sync, an oversized Query, a Flush, an oversized Parse and two
   Syncs under a limit of 16 bytes meets the hypotheses; its three Syncs get three ReadyForQuery (two more answer the
   two rejected Queries) *)
From Coq Require Import String.
Local Open Scope string_scope.
Local Open Scope list_scope.
Definition ex_plain_case : scase :=
  {| sc_limit := 16; sc_auth := None; sc_params := []; sc_version := []; sc_tls := false; sc_mws := [];
     sc_term := None; sc_parse := [];
     sc_raw := (let body := be32 196608 ++ [x00] in be32 (4 + lenZ body) ++ body) ++
               (x51 :: be32 2) ++
               client_msg x53 [] ++
               client_msg x51 (cstr (bs "a query text beyond the limit")) ++
               client_msg x48 [] ++
               client_msg x50 (cstr (bs "s") ++ cstr (bs "a statement beyond the limit") ++ be16 0) ++
               client_msg x53 [] ++ client_msg x53 [];
     sc_tlsin := None |}.
Example C10_ex_plain :
  case_nocopy ex_plain_case = true /\
  (exists v after rest, start (cfg_of_case ex_plain_case) (sc_raw ex_plain_case) = Some (v, after, rest) /\ v = 196608) /\
  forallb plain_frame (client_frames ex_plain_case) = true /\
  List.length (client_frames ex_plain_case) = 7%nat /\
  syncs (client_frames ex_plain_case) = 3%nat /\
  (exists st ts, turns (run_case ex_plain_case) = st :: ts /\ List.length ts = 7%nat /\ readies (List.concat ts) = 5%nat).
Proof. vm_compute. repeat split. do 3 eexists. split; reflexivity. do 2 eexists. repeat split. Qed.
