(* C16 — Server.Close: shutdown protocol.
   Statements only; the proofs are in Wire/CloseFacts.v, the executable model
   ([exec], [run], [init] and the pinned variants) in Wire/CloseModel.v.

   Every theorem quantifies over any number of concurrent Close callers [nc],
   any number of connection goroutines with any message budgets [budgets], and
   EVERY schedule [sched]; [run (init nc budgets) sched] ranges over exactly the
   reachable states (CloseFacts.reach_run). *)
From Coq Require Import List ZArith Bool.
Import ListNotations.
From Wire Require Import CloseModel CloseFacts.

(* 1. The closer channel is closed at most once (no "close of closed channel"
      panic) and the wait-group counter never becomes negative. *)
Theorem C16_no_panic : forall (nc : nat) (budgets : list nat) (sched : list actor),
  let s := run (init nc budgets) sched in
  panicked s = false /\ (0 <= wg s)%Z.
Proof. exact safe_no_panic. Qed.
Print Assumptions C16_no_panic.

(* 2. No worker takes its handler-start step after some Close has returned. *)
Theorem C16_final : forall (nc : nat) (budgets : list nat) (sched : list actor),
  started_after_return (run (init nc budgets) sched) = false.
Proof. exact safe_final. Qed.
Print Assumptions C16_final.

(* 3. Once some Close has returned, no worker is between handler start and
      handler end, none is counted in the wait group, the counter is 0 and the
      closing flag is set. *)
Theorem C16_waits : forall (nc : nat) (budgets : list nat) (sched : list actor),
  let s := run (init nc budgets) sched in
  returned s = true ->
  running s = 0 /\ counted s = 0 /\ wg s = 0%Z /\ closing s = true.
Proof. exact safe_waits. Qed.
Print Assumptions C16_waits.

(* 4. A pending Close is never stuck: as long as some closer has not returned,
      a closer, the helper, or a worker that is past its read step is enabled;
      progress does not depend on new client messages arriving. *)
Theorem C16_not_stuck :
  forall (nc : nat) (budgets : list nat) (sched : list actor) (i : nat) (pc : cpc),
  let s := run (init nc budgets) sched in
  nth_error (closers s) i = Some pc -> pc <> CRet ->
  exists a, enabled s a = true /\ not_fresh_read s a = true.
Proof. exact not_stuck. Qed.
Print Assumptions C16_not_stuck.

(* 5. Termination measure: every step that is not the read of a new client
      message strictly decreases [mu] (in any state, closing or not); every step
      whatsoever decreases [mu_total] (budgets are finite).  Hence a run without
      new reads has at most [mu s] steps, and by 4 it can only end with every
      Close returned — provided handlers terminate (WEnd is always enabled). *)
Theorem C16_terminates : forall (s : st) (a : actor) (s' : st),
  exec s a = Some s' ->
  (not_fresh_read s a = true -> mu s' < mu s) /\ mu_total s' < mu_total s.
Proof. exact mu_step. Qed.
Print Assumptions C16_terminates.

Theorem C16_nonread_bound : forall (s : st) (sched : list actor),
  nonread_sched s sched = true -> length sched + mu (run s sched) <= mu s.
Proof. intros s sched. exact (nonread_bound sched s). Qed.
Print Assumptions C16_nonread_bound.

(* From every reachable state all Close calls can be brought to return without
   reading any further client message. *)
Theorem C16_can_return : forall (nc : nat) (budgets : list nat) (sched : list actor),
  let s := run (init nc budgets) sched in
  exists more, nonread_sched s more = true /\ pending (run s more) = 0.
Proof.
  intros nc budgets sched s.
  exact (can_return (S (mu s)) s (inv_reach nc budgets sched) (Nat.lt_succ_diag_r _)).
Qed.
Print Assumptions C16_can_return.

(* 6. The pinned (pre-repair) protocol violates 1 and 2. *)
Definition c0 := ACloser 0.
Definition c1 := ACloser 1.
Definition w0 := AWorker 0.
Definition w1 := AWorker 1.
Definition hp := AHelper.

(* both closers pass the flag test, then both close the channel *)
Definition pinned_double_close : list actor :=
  [ c0; c1;          (* closing.Load() = false, twice *)
    c0; c0;          (* Store(true); close(closer) *)
    c1; c1 ].        (* Store(true); close(closer) again: panic *)

(* a worker passes the flag test, a closer runs to completion and returns,
   then the worker starts its handler *)
Definition pinned_late_start : list actor :=
  [ w0; w0;          (* read a message; closing.Load() = false *)
    c0; c0; c0;      (* Load; Store(true); close(closer) *)
    hp;              (* accept helper: wg.Done() *)
    c0;              (* wg.Wait() passes, Close returns *)
    w0; w0 ].        (* wg.Add(1); handler start *)

Theorem C16_pinned_refuted :
  panicked (run_pinned (init_pinned 2 []) pinned_double_close) = true /\
  (let s := run_pinned (init_pinned 1 [1]) pinned_late_start in
   started_after_return s = true /\ closers s = [CRet] /\ workers s = [WEnd]).
Proof. vm_compute. repeat split. Qed.
Print Assumptions C16_pinned_refuted.

(* the same two schedules are harmless on the repaired protocol (the steps
   that do not exist there are simply skipped; by 1 and 2 no schedule can do
   harm) *)
Example C16_repaired_same_schedules :
  panicked (run (init 2 []) pinned_double_close) = false /\
  started_after_return (run (init 1 [1]) pinned_late_start) = false.
Proof. vm_compute. split; reflexivity. Qed.

(* Non-vacuity: 2 closers, 2 workers with budgets [2;1] on the repaired
   protocol.  Both closers return, two handlers ran before that, one message
   was dropped after closing, and the blocking steps really block. *)
Definition ex_sched : list actor :=
  [ w0; w0; w0; w0; w0; w0; w0; w0;   (* worker 0 handles its first message *)
    w1; w1;                            (* worker 1 reads, takes the read lock *)
    c0;                                (* closer 0 enters the Once *)
    c1;                                (* closer 1 blocks on the Once (skipped) *)
    c0;                                (* Lock blocked by the reader (skipped) *)
    w1; w1; w1;                        (* Load = false, wg.Add(1), RUnlock *)
    c0; c0; c0;                        (* Lock, Store(true), Unlock *)
    w0; w0; w0; w0;                    (* read, RLock, Load = true: dropped, RUnlock *)
    c0;                                (* close(closer); the Once is done *)
    c1;                                (* closer 1 passes the Once *)
    hp;                                (* accept helper: wg.Done() *)
    c1;                                (* Wait blocked: worker 1 is counted (skipped) *)
    w1; w1; w1;                        (* handler start, handler end, wg.Done() *)
    c1; c0 ].                          (* both Waits return *)

Example C16_example_run :
  run (init 2 [2; 1]) ex_sched =
  {| closing := true; once := ODone; writer := false; readers := 0;
     chan_closed := true; wg := 0; helper_alive := false;
     panicked := false; returned := true; started_after_return := false;
     handled := 2; dropped := 1;
     closers := [CRet; CRet]; workers := [WRead; WRead]; budgets := [0; 0] |}.
Proof. vm_compute. reflexivity. Qed.

(* which actions of the schedule were enabled at their turn *)
Example C16_example_blocking :
  map (fun n => enabled (run (init 2 [2; 1]) (firstn n ex_sched)) (nth n ex_sched hp))
      (seq 0 (length ex_sched)) =
  [true; true; true; true; true; true; true; true; true; true; true;
   false; false;
   true; true; true; true; true; true; true; true; true; true; true; true; true;
   false;
   true; true; true; true; true].
Proof. vm_compute. reflexivity. Qed.

(* a state in which a Close is pending and only non-read actions can help:
   after the prefix up to the blocked Wait, the enabled non-read actions are
   exactly worker 1's (at handler start) *)
Example C16_example_pending :
  let s := run (init 2 [2; 1]) (firstn 26 ex_sched) in
  pending s = 2 /\ returned s = false /\
  map (enabled s) [c0; c1; hp; w0; w1] = [false; false; false; false; true] /\
  not_fresh_read s w1 = true /\ mu s = 5.
Proof. vm_compute. repeat split. Qed.
