(* C17 — error decorations reach the client field for field.
   Statements only; proofs are [exact] of lemmas in Wire/ErrorsFacts.v and
   Wire/BytesFacts.v. *)
Require Import Wire.Bytes Spec.BackendSpec Wire.Errors Spec.ErrorSpec Spec.ErrorFields
  Wire.ErrorsFacts Wire.BytesFacts Spec.OracleC17.
Local Open Scope list_scope.

(* For every non-nil error — any base text, any nesting, order and repetition
   of the six decorators, fmt-style wrapping anywhere, no depth bound — the
   fields ErrorCode writes are exactly: S = outermost severity (ERROR when
   absent or empty), C = outermost SQLSTATE (XXUUU when absent), M = the error's
   text, then H, D iff a non-empty outermost hint/detail exists, F L R iff a
   source is set (L the decimal text of the line), n iff a non-empty outermost
   constraint exists. *)
Theorem C17_fields : forall e, err_fields (Some e) = spec_fields e.
Proof. exact err_fields_spec. Qed.
Print Assumptions C17_fields.

(* the individual walkers return the outermost decoration *)
Theorem C17_code : forall e, get_code e = spec_code e.
Proof. exact get_code_spec. Qed.
Print Assumptions C17_code.
Theorem C17_severity : forall e, default_severity (get_severity e) = spec_severity e.
Proof. exact default_severity_spec. Qed.
Print Assumptions C17_severity.
Theorem C17_source : forall e, get_source e = outer_source e.
Proof. exact get_source_spec. Qed.
Print Assumptions C17_source.

(* each field code at most once *)
Theorem C17_at_most_once : forall e, NoDup (map fst (err_fields (Some e))).
Proof. intros e. rewrite err_fields_spec. exact (spec_fields_nodup e). Qed.
Print Assumptions C17_at_most_once.

(* the message is the error's text; ordinary wrapping only changes the text *)
Theorem C17_message : forall e, In (x4d, err_text e) (err_fields (Some e)).
Proof. intros e. rewrite err_fields_spec. exact (spec_fields_message e). Qed.
Print Assumptions C17_message.

(* the source line travels as decimal text that reads back as the same number,
   for every int32 (and far beyond) *)
Theorem C17_line_text : forall z, (- 2147483648 <= z <= 2147483647)%Z -> atoi_text (itoa z) = Some z.
Proof. intros z H. apply atoi_itoa. lia. Qed.
Print Assumptions C17_line_text.

(* a nil error is reported as an internal fatal error *)
Theorem C17_nil : err_fields None = nil_fields.
Proof. exact err_fields_nil. Qed.
Print Assumptions C17_nil.

From Coq Require Import String.
Local Open Scope string_scope.

(* non-vacuity: a deeply decorated error and what it produces *)
Example C17_ex :
  err_fields (Some (EHint (bs "inner hint") (EWrap (bs "ctx: ") [] (ECode (bs "23505")
    (ESev (bs "FATAL") (EHint (bs "shadowed") (ESource (bs "a.go") 42 (bs "f")
    (EConstraint (bs "pk") (ECode (bs "XX000") (EBase (bs "boom")))))))))))
  = [(x53, bs "FATAL"); (x43, bs "23505"); (x4d, bs "ctx: boom"); (x48, bs "inner hint");
     (x46, bs "a.go"); (x4c, bs "42"); (x52, bs "f"); (x6e, bs "pk")].
Proof. vm_compute. reflexivity. Qed.

(* the oracle accepts the model's own output *)
Example C17_ex_oracle :
  oracle_C17 (Some (ESource (bs "a.go") (-7) (bs "f") (EBase (bs "x"))))
             (model_errorcode (Some (ESource (bs "a.go") (-7) (bs "f") (EBase (bs "x"))))) = true.
Proof. vm_compute. reflexivity. Qed.

(* pinned tree: the line as four raw bytes makes the ErrorResponse unparsable,
   and the constraint name never appears *)
Theorem C17_line_pinned_refuted :
  exists e, parse_bmsg x45 (err_body_pinned (Some e)) = None.
Proof. exists (ESource (bs "a.go") 42 (bs "f") (EBase (bs "x"))). vm_compute. reflexivity. Qed.
Print Assumptions C17_line_pinned_refuted.
Theorem C17_constraint_pinned_refuted :
  exists e fs, parse_bmsg x45 (err_body_pinned (Some e)) = Some (BError fs) /\
               outer_constraint e = Some (bs "pk") /\ ~ In x6e (map fst fs).
Proof.
  exists (EConstraint (bs "pk") (EBase (bs "x"))). eexists. split; [vm_compute; reflexivity|].
  split; [reflexivity|]. cbn. intuition discriminate.
Qed.
Print Assumptions C17_constraint_pinned_refuted.

(* ---- whole connections ---- *)
Require Import Wire.Framing Wire.Session Wire.Case Spec.Oracles Spec.OracleFactsRows.
Local Open Scope list_scope.

(* For every configuration and every client byte stream: every ErrorResponse in the log of the whole connection
   carries exactly [spec_fields e] — the outermost value of each decoration, severity and SQLSTATE defaulted,
   every field at most once — of an error value e that is either one of the library's own errors or the very
   value a configured callback returned: the parse function for the query text (simple Query and extended
   Parse alike) or the statement function (under Execute and under a simple query alike). No path of the
   session recodes, adds or drops a decoration. *)
Theorem C17_connection_errors : forall sc,
  Forall (fun m => match m with
                   | BError fs => exists e, err_src sc e /\ fs = spec_fields e /\ NoDup (map fst fs)
                   | _ => True end) (Oracles.outs (run_case sc)).
Proof.
  intros sc. eapply Forall_impl; [|apply errors_come_from_callbacks].
  intros m H. destruct m; try exact I. destruct H as (e & He & ->).
  exists e. split; [exact He|]. rewrite err_fields_spec. split; [reflexivity|apply spec_fields_nodup].
Qed.
Print Assumptions C17_connection_errors.

(* non-vacuity: a parse error with decorations reported through a simple Query and through an extended Parse *)
Definition ex_err_case : scase :=
  {| sc_limit := 0; sc_auth := None; sc_params := []; sc_version := []; sc_tls := false; sc_mws := [];
     sc_term := None;
     sc_parse := [(bs "perr", PErr (ESev (bs "LOG") (EHint (bs "h") (EBase (bs "nope")))))];
     sc_raw := ((let body := be32 196608 ++ cstr (bs "user") ++ cstr (bs "a") ++ [x00] in be32 (4 + lenZ body) ++ body) ++
               client_msg x51 (cstr (bs "perr")) ++ client_msg x50 ([x00] ++ cstr (bs "perr") ++ [x00; x00]) ++ client_msg x53 [])%list;
     sc_tlsin := None |}.
Example C17_ex_connection :
  filter (fun m => match m with BError _ => true | _ => false end) (Oracles.outs (run_case ex_err_case)) =
  let m := BError (spec_fields (ESev (bs "LOG") (EHint (bs "h") (EBase (bs "nope"))))) in [m; m].
Proof. vm_compute. reflexivity. Qed.
