(* C12 — startup negotiation delivers parameters both ways, once, in order. *)
Require Import Wire.Bytes Spec.BackendSpec Spec.BackendSpecFacts Wire.Errors Wire.Framing Wire.Session
  Wire.SessionFacts Wire.CommandFacts Wire.WireFacts.
Local Open Scope list_scope.
From Coq Require Import String.
Local Open Scope string_scope.

(* the key/value pairs of every startup packet are read back exactly (in order,
   empty values kept), whatever follows the terminator *)
Theorem C12_client_params : forall ps fuel junk,
  forallb wf_pair ps = true -> (List.length ps < fuel)%nat ->
  read_params fuel (flat_map enc_pair ps ++ x00 :: junk)%list = Some ps.
Proof. exact read_params_enc. Qed.
Print Assumptions C12_client_params.

(* duplicates: the last one wins *)
Theorem C12_last_wins : forall k v ps, param_get k (ps ++ [(k, v)]) = v.
Proof. exact param_get_last. Qed.
Print Assumptions C12_last_wins.

(* the server's parameter set: the forced entries with this connection's user ... *)
Theorem C12_forced : forall c user,
  In (bs "server_encoding", bs "UTF8") (server_params c user) /\
  In (bs "client_encoding", bs "UTF8") (server_params c user) /\
  In (bs "is_superuser", bs "off") (server_params c user) /\
  In (bs "session_authorization", user) (server_params c user) /\
  (cfg_version c <> [] -> In (bs "server_version", cfg_version c) (server_params c user)).
Proof. exact server_params_forced. Qed.
Print Assumptions C12_forced.

(* ... plus every configured parameter that is not overridden; the configured map
   itself is an input the model never returns modified *)
Theorem C12_configured : forall c user k v,
  In (k, v) (cfg_params c) ->
  existsb (fun f => bytes_eqb k (fst f)) (forced_params c user) = false ->
  In (k, v) (server_params c user).
Proof. exact server_params_configured. Qed.
Print Assumptions C12_configured.

(* a CancelRequest — first, or after an SSLRequest answered 'N' — is closed with
   no protocol reply and no callback *)
Theorem C12_cancel : forall c raw tls after rest,
  start c raw = Some (version_cancel, after, rest) -> serve c raw tls = [Closed].
Proof. intros c raw tls after rest H. unfold serve. rewrite H. reflexivity. Qed.
Print Assumptions C12_cancel.

Theorem C12_cancel_after_N : forall c raw tls a1 rest a2 rest2,
  cfg_tls c = false ->
  start c raw = Some (version_ssl, a1, rest) ->
  start c rest = Some (version_cancel, a2, rest2) ->
  serve c raw tls = [RawOut x4e; Closed].
Proof. intros c raw tls a1 rest a2 rest2 T H1 H2. unfold serve. rewrite H1, T, H2. reflexivity. Qed.
Print Assumptions C12_cancel_after_N.

Example C12_cancel_ex :
  let c := {| cfg_limit := 0; cfg_auth := None; cfg_params := []; cfg_version := []; cfg_tls := false;
              cfg_mws := [true]; cfg_term := None; cfg_parse := fun _ => POk []; cfg_encode := fun _ _ _ => EncNull |} in
  serve c (hx "0000001004d2162e0000000100000002" ++ hx "510000000a73656c656374203100")%list None = [Closed] /\
  serve c (hx "0000000804d2162f" ++ hx "0000001004d2162e0000000100000002")%list None = [RawOut x4e; Closed].
Proof. vm_compute. split; reflexivity. Qed.

Example C12_ex :
  let c := {| cfg_limit := 0; cfg_auth := None; cfg_params := [(bs "TimeZone", bs "UTC"); (bs "is_superuser", bs "on")];
              cfg_version := bs "15"; cfg_tls := false; cfg_mws := []; cfg_term := None;
              cfg_parse := fun _ => POk []; cfg_encode := fun _ _ _ => EncNull |} in
  server_params c (bs "zed") =
  [(bs "TimeZone", bs "UTC"); (bs "server_encoding", bs "UTF8"); (bs "client_encoding", bs "UTF8");
   (bs "server_version", bs "15"); (bs "is_superuser", bs "off"); (bs "session_authorization", bs "zed")].
Proof. vm_compute. reflexivity. Qed.

(* ---------- the whole connection against the executable oracle ---------- *)
Require Import Wire.RobustFacts Wire.Case Spec.Oracles Spec.OracleFacts Spec.OracleFactsStartup.

(* For every case the harness can script whose configured parameter map has distinct keys
   (a Go map always has): the log of the model passes [oracle_C12] — a malformed or
   cancelled startup gets no reply and no callback; otherwise the ParameterStatus
   messages carry pairwise distinct keys, are exactly the expected set (the forced
   entries with this connection's user, plus every configured entry not overridden),
   form one contiguous block right after the authentication messages, and the next
   message is the first ReadyForQuery. *)
Theorem C12_model_satisfies_oracle : forall sc,
  keys_distinct (sc_params sc) = true ->
  (forall v after rest, start (cfg_of_case sc) (sc_raw sc) = Some (v, after, rest) -> v <> version_ssl) ->
  oracle_C12 sc (run_case sc) = true.
Proof. exact oracle_C12_model. Qed.
Print Assumptions C12_model_satisfies_oracle.
