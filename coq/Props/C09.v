(* C09 — row values round-trip to the client and NULL stays NULL. *)
Require Import Wire.Bytes Spec.BackendSpec Wire.Errors Wire.Framing Wire.Session Wire.Transport Wire.Copy Wire.Codec Wire.CodecFacts.
Local Open Scope list_scope.
Local Open Scope Z_scope.

(* for every supported column type, both formats and every representable value
   (bool, int2/4/8 incl. min/max, text, varchar, bytea, uuid, float4/8 as bit patterns
   in binary format): what the encoder produced, decoded by the independent decoder
   in that format, is the value written *)
Theorem C09_codec : forall oid fmt v b,
  typed oid v = true -> (fmt = 0 \/ fmt = 1) ->
  encode_value oid fmt v = EncBytes b -> decode_value oid fmt b = dval_of_value v.
Proof. exact codec_roundtrip. Qed.
Print Assumptions C09_codec.

(* every SQL NULL — untyped nil, typed nil pointer, invalid nullable value — is
   encoded as NULL for every column type and both formats, and nothing else is *)
Theorem C09_null : forall oid fmt v, (fmt = 0 \/ fmt = 1) ->
  (encode_value oid fmt v = EncNull <-> (v = VNil \/ v = VNilPtr \/ v = VInvalid)).
Proof.
  intros oid fmt v F. assert (Fm : negb ((fmt =? 0) || (fmt =? 1)) = false) by (destruct F; subst; reflexivity).
  split.
  - unfold encode_value. rewrite Fm. destruct v; auto; intros H; exfalso; revert H.
    + destruct (fmt =? 0); [discriminate|]. destruct ((oid =? oid_text) || (oid =? oid_varchar)); discriminate.
    + unfold enc_int. destruct (oid =? oid_int2); [destruct (in_range 16 z); discriminate|].
      destruct (oid =? oid_int4); [destruct (in_range 32 z); discriminate|]. destruct (oid =? oid_int8); [destruct (in_range 64 z); discriminate|discriminate].
    + unfold enc_int. destruct (oid =? oid_int2); [destruct (in_range 16 z); discriminate|].
      destruct (oid =? oid_int4); [destruct (in_range 32 z); discriminate|]. destruct (oid =? oid_int8); [destruct (in_range 64 z); discriminate|discriminate].
    + unfold enc_int. destruct (oid =? oid_int2); [destruct (in_range 16 z); discriminate|].
      destruct (oid =? oid_int4); [destruct (in_range 32 z); discriminate|]. destruct (oid =? oid_int8); [destruct (in_range 64 z); discriminate|discriminate].
    + destruct (oid =? oid_bool); discriminate.
    + destruct (oid =? oid_bytea); discriminate.
    + discriminate.
    + destruct ((oid =? oid_uuid) && (lenZ b =? 16)); discriminate.
    + destruct ((oid =? oid_float4) && (fmt =? 1)); discriminate.
    + destruct ((oid =? oid_float8) && (fmt =? 1)); discriminate.
  - intros [-> | [-> | ->]]; unfold encode_value; rewrite ?Fm; reflexivity.
Qed.
Print Assumptions C09_null.

(* DataRow framing, for ANY encoder: a row with as many values as columns whose
   encodings all succeed gives one DataRow with exactly one field per column —
   None (length -1, no payload) iff the encoder said NULL, otherwise exactly the
   encoder's bytes (Some [] = length 0 for a non-NULL empty value) *)
Fixpoint expected_fields (encode : Z -> Z -> value -> encres) (cols : list column) (fmts : list Z) (i : nat) (vs : list value)
  : option (list (option bytes)) :=
  match cols, vs with
  | c :: cr, v :: vr =>
      match encode (c_oid c) (fmt_for fmts i) v, expected_fields encode cr fmts (S i) vr with
      | EncNull, Some fs => Some (None :: fs)
      | EncBytes b, Some fs => Some (Some b :: fs)
      | _, _ => None
      end
  | [], [] => Some []
  | _, _ => None
  end.

Theorem C09_frame : forall encode cols fmts vs fs,
  expected_fields encode cols fmts 0 vs = Some fs ->
  write_row encode cols fmts vs = RowOk fs /\ length fs = length cols /\
  length (coldescs cols fmts 0) = length cols.
Proof.
  intros encode cols fmts vs fs H.
  assert (G : forall cols vs i fs, expected_fields encode cols fmts i vs = Some fs ->
              Session.enc_fields encode cols fmts i vs = RowOk fs /\ length fs = length cols /\ length vs = length cols /\
              length (coldescs cols fmts i) = length cols).
  { clear. induction cols as [|c cr IH]; intros [|v vr] i fs H; cbn [expected_fields] in H; try discriminate.
    - injection H as <-. cbn. auto.
    - cbn [Session.enc_fields coldescs length].
      destruct (encode (c_oid c) (fmt_for fmts i) v) eqn:E; try discriminate;
        destruct (expected_fields encode cr fmts (S i) vr) as [fs'|] eqn:E2; try discriminate;
        injection H as <-; destruct (IH vr (S i) fs' E2) as (A & B & C & D); rewrite A; cbn [length]; auto. }
  destruct (G cols vs 0%nat fs H) as (A & B & C & D).
  unfold write_row, lenZ. rewrite C, Z.eqb_refl. cbn [negb]. auto.
Qed.
Print Assumptions C09_frame.

(* ---- whole connections ---- *)
Require Import Wire.Case Spec.Oracles Spec.OracleFactsRows.
From Coq Require Import String.
Local Open Scope string_scope.
Local Open Scope list_scope.

(* For every configuration (any parser table, any handler programs, authentication, middleware, limit) and every
   client byte stream (simple and extended protocol, any Bind result formats, SSLRequest first or not, malformed
   or hostile input included): every DataRow in the log of the whole connection is a row that a configured
   statement function writes — as many values and as many fields as that statement declares columns — and each
   field is NULL exactly for the three NULL values and otherwise decodes, with the independent decoder and in the
   format that was used for that column (which is text or binary), to the value written, for every value matching
   its column type. No DataRow comes from anywhere else. *)
Theorem C09_connection_rows : forall sc, Forall (row_from sc) (Oracles.outs (run_case sc)).
Proof. exact rows_come_from_handlers. Qed.
Print Assumptions C09_connection_rows.

(* ... and every RowDescription of the connection describes, in order and one field per column, the columns of a
   configured statement under some result-format list: a DataRow and the RowDescription of its statement always
   have the same number of fields *)
Theorem C09_connection_rowdescs : forall sc, Forall (desc_from sc) (Oracles.outs (run_case sc)).
Proof. exact rowdescs_come_from_statements. Qed.
Print Assumptions C09_connection_rowdescs.

Definition ex_rows_case : scase :=
  {| sc_limit := 0; sc_auth := None; sc_params := []; sc_version := []; sc_tls := false; sc_mws := [];
     sc_term := None;
     sc_parse := [(bs "q", POk [ {| s_id := 1;
                    s_cols := [ {| c_name := bs "n"; c_table := 0; c_attrno := 0; c_oid := 23; c_width := 4 |};
                                {| c_name := bs "t"; c_table := 0; c_attrno := 0; c_oid := 25; c_width := -1 |} ];
                    s_poids := []; s_prog := [HRow [VInt4 7; VText (bs "seven")]; HRow [VNil; VNilPtr]; HComplete (bs "SELECT 2")];
                    s_stop := true; s_ret := RetNil |} ])];
     sc_raw := ((let body := be32 196608 ++ cstr (bs "user") ++ cstr (bs "a") ++ [x00] in be32 (4 + lenZ body) ++ body) ++
               client_msg x51 (cstr (bs "q")) ++
               client_msg x50 ([x00] ++ cstr (bs "q") ++ [x00; x00]) ++
               client_msg x42 ([x00; x00] ++ [x00; x00] ++ [x00; x00] ++ [x00; x02; x00; x01; x00; x00]) ++
               client_msg x45 ([x00] ++ be32 0) ++ client_msg x53 [])%list;
     sc_tlsin := None |}.
Example C09_ex_rows :
  List.length (filter (fun m => match m with BDataRow _ => true | _ => false end) (Oracles.outs (run_case ex_rows_case))) = 4%nat.
Proof. vm_compute. reflexivity. Qed.
