(* C13 — COPY-in: data delivered in order, abort reported exactly once. *)
Require Import Wire.Bytes Spec.BackendSpec Wire.Errors Wire.Framing Wire.Session
  Wire.SessionFacts Wire.CommandFacts.
Local Open Scope list_scope.

(* what one CopyReader.Read returns for the message at the head of the stream *)
Theorem C13_data : forall L body rest tl,
  copy_read L (FMsg x64 body :: rest) tl = ([Consume], OData body, rest).
Proof. exact copy_read_data. Qed.
Theorem C13_done : forall L body rest tl,
  copy_read L (FMsg x63 body :: rest) tl = ([Consume], OEof, rest).
Proof. exact copy_read_done. Qed.
Theorem C13_fail : forall L desc junk rest tl,
  nul_free desc = true ->
  copy_read L (FMsg x66 (desc ++ x00 :: junk) :: rest) tl = ([Consume], OErr (e_copy_failed desc), rest).
Proof. exact copy_read_fail. Qed.
Print Assumptions C13_fail.
(* Flush and Sync are ignored *)
Theorem C13_skip : forall L t body rest tl,
  Byte.eqb t x48 || Byte.eqb t x53 = true ->
  copy_read L (FMsg t body :: rest) tl =
  let '(evs, r, rest') := copy_read L rest tl in (Consume :: evs, r, rest').
Proof. exact copy_read_skip. Qed.
(* any other message: a non-nil, non-EOF error *)
Theorem C13_foreign : forall L t body rest tl,
  Byte.eqb t x48 || Byte.eqb t x53 = false -> Byte.eqb t x64 = false -> Byte.eqb t x63 = false -> Byte.eqb t x66 = false ->
  copy_read L (FMsg t body :: rest) tl = ([Consume], OErr (e_unimplemented t), rest).
Proof. exact copy_read_foreign. Qed.
Print Assumptions C13_foreign.

(* a read never writes to the client (the abort is reported by the cycle, once),
   runs no callback, and only takes messages off the front of the stream *)
Theorem C13_read_silent : forall L fs tl evs r rest,
  copy_read L fs tl = (evs, r, rest) ->
  outs evs = [] /\ filter is_cb evs = [] /\ (length rest <= length fs)%nat.
Proof. exact copy_read_spec. Qed.
Print Assumptions C13_read_silent.

(* whatever the handler does with COPY (any program, any point where it stops or
   fails): the simple-query cycle ends with exactly one ReadyForQuery and at most one
   ErrorResponse directly in front of it (C05_cycle, restated) *)
Theorem C13_once : forall c body fs tl evs fs' k,
  simple_query c body fs tl = (evs, fs', k) -> k = Continue ->
  exists pre, outs evs = pre ++ [ready] /\ no_ready pre = true /\
    ((no_error pre = true) \/ (exists pre' e, pre = pre' ++ [BError e] /\ no_error pre' = true)).
Proof. intros. eapply simple_query_cycle; eauto. Qed.
Print Assumptions C13_once.

(* COPY messages outside COPY mode are ignored without reply *)
Theorem C13_stray : forall c st t body rest tl,
  st_discard st = false -> Byte.eqb t x64 || Byte.eqb t x63 || Byte.eqb t x66 = true ->
  cmd c st (FMsg t body) rest tl = ([], st, rest, Continue).
Proof.
  intros c st t body rest tl D H. unfold cmd. rewrite D. cbn [andb].
  assert (Byte.eqb t x51 = false /\ Byte.eqb t x45 = false /\ Byte.eqb t x50 = false /\ Byte.eqb t x44 = false /\
          Byte.eqb t x53 = false /\ Byte.eqb t x42 = false /\ Byte.eqb t x48 = false) as (A1&A2&A3&A4&A5&A6&A7).
  { destruct (Byte.eqb t x64) eqn:E1; [apply Byte.byte_dec_bl in E1; subst; repeat split; reflexivity|].
    destruct (Byte.eqb t x63) eqn:E2; [apply Byte.byte_dec_bl in E2; subst; repeat split; reflexivity|].
    destruct (Byte.eqb t x66) eqn:E3; [apply Byte.byte_dec_bl in E3; subst; repeat split; reflexivity|discriminate]. }
  rewrite A1, A2, A3, A4, A5, A6, A7, H. reflexivity.
Qed.
Print Assumptions C13_stray.
