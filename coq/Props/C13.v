(* C13 — COPY-in: data delivered in order, abort reported exactly once. *)
Require Import Wire.Bytes Spec.BackendSpec Wire.Errors Wire.Framing Wire.Session
  Wire.SessionFacts Wire.CommandFacts.
Local Open Scope list_scope.

(* what one CopyReader.Read returns for the message at the head of the stream *)
Theorem C13_data : forall L body rest tl,
  copy_read L (FMsg x64 body :: rest) tl = ([Consume], OData body, rest).
Proof. exact copy_read_data. Qed.
Theorem C13_done : forall L body rest tl,
  copy_read L (FMsg x63 body :: rest) tl = ([Consume], OEof, rest).
Proof. exact copy_read_done. Qed.
Theorem C13_fail : forall L desc junk rest tl,
  nul_free desc = true ->
  copy_read L (FMsg x66 (desc ++ x00 :: junk) :: rest) tl = ([Consume], OErr (e_copy_failed desc), rest).
Proof. exact copy_read_fail. Qed.
Print Assumptions C13_fail.
(* Flush and Sync are ignored *)
Theorem C13_skip : forall L t body rest tl,
  Byte.eqb t x48 || Byte.eqb t x53 = true ->
  copy_read L (FMsg t body :: rest) tl =
  let '(evs, r, rest') := copy_read L rest tl in (Consume :: evs, r, rest').
Proof. exact copy_read_skip. Qed.
(* any other message: a non-nil, non-EOF error *)
Theorem C13_foreign : forall L t body rest tl,
  Byte.eqb t x48 || Byte.eqb t x53 = false -> Byte.eqb t x64 = false -> Byte.eqb t x63 = false -> Byte.eqb t x66 = false ->
  copy_read L (FMsg t body :: rest) tl = ([Consume], OErr (e_unimplemented t), rest).
Proof. exact copy_read_foreign. Qed.
Print Assumptions C13_foreign.

(* a read never writes to the client (the abort is reported by the cycle, once),
   runs no callback, and only takes messages off the front of the stream *)
Theorem C13_read_silent : forall L fs tl evs r rest,
  copy_read L fs tl = (evs, r, rest) ->
  outs evs = [] /\ filter is_cb evs = [] /\ (length rest <= length fs)%nat.
Proof. exact copy_read_spec. Qed.
Print Assumptions C13_read_silent.

(* whatever the handler does with COPY (any program, any point where it stops or
   fails): the simple-query cycle ends with exactly one ReadyForQuery and at most one
   ErrorResponse directly in front of it (C05_cycle, restated) *)
Theorem C13_once : forall c body fs tl evs fs' k,
  simple_query c body fs tl = (evs, fs', k) -> k = Continue ->
  exists pre, outs evs = pre ++ [ready] /\ no_ready pre = true /\
    ((no_error pre = true) \/ (exists pre' e, pre = pre' ++ [BError e] /\ no_error pre' = true)).
Proof. intros. eapply simple_query_cycle; eauto. Qed.
Print Assumptions C13_once.

(* COPY messages outside COPY mode are ignored without reply *)
Theorem C13_stray : forall c st t body rest tl,
  st_discard st = false -> Byte.eqb t x64 || Byte.eqb t x63 || Byte.eqb t x66 = true ->
  cmd c st (FMsg t body) rest tl = ([], st, rest, Continue).
Proof.
  intros c st t body rest tl D H. unfold cmd. rewrite D. cbn [andb].
  assert (Byte.eqb t x51 = false /\ Byte.eqb t x45 = false /\ Byte.eqb t x50 = false /\ Byte.eqb t x44 = false /\
          Byte.eqb t x53 = false /\ Byte.eqb t x42 = false /\ Byte.eqb t x48 = false) as (A1&A2&A3&A4&A5&A6&A7).
  { destruct (Byte.eqb t x64) eqn:E1; [apply Byte.byte_dec_bl in E1; subst; repeat split; reflexivity|].
    destruct (Byte.eqb t x63) eqn:E2; [apply Byte.byte_dec_bl in E2; subst; repeat split; reflexivity|].
    destruct (Byte.eqb t x66) eqn:E3; [apply Byte.byte_dec_bl in E3; subst; repeat split; reflexivity|discriminate]. }
  rewrite A1, A2, A3, A4, A5, A6, A7, H. reflexivity.
Qed.
Print Assumptions C13_stray.

(* ---- the oracle evaluated on the implementation holds of the model, for every input ---- *)
Require Import Wire.Case Spec.Oracles Spec.OracleFactsCopy Spec.OracleFactsCopy2 Spec.OracleFactsEnd Spec.OracleFactsData.
From Coq Require Import String.
Local Open Scope string_scope.
Local Open Scope list_scope.
Local Open Scope Z_scope.

(* For every configuration (handler programs with CopyIn and CopyReader.Read calls anywhere, any number of
   statements, any limit, authentication, middleware) and every client byte stream whose first packet is not
   an SSLRequest: the model's whole-connection log has no crash, every CopyInResponse answers a configured
   CopyIn call with that statement's column count and format, and the left-to-right scan [copy_mon]
   (data handed to the handler = the client's CopyData bodies in order, CopyDone => io.EOF once,
   CopyFail => the abort reported once and the ErrorResponse written once, nothing delivered after the end
   of a COPY, stray COPY messages outside a COPY ignored silently) accepts it. *)
Theorem C13_model_satisfies_oracle : forall sc,
  (forall v after rest, start (cfg_of_case sc) (sc_raw sc) = Some (v, after, rest) -> v <> version_ssl) ->
  oracle_C13 sc (run_case sc) = true.
Proof. exact oracle_C13_model. Qed.
Print Assumptions C13_model_satisfies_oracle.

(* ... and the second scan [oracle_C13_strict]: for every configuration and client stream, the first result
   a handler sees in the turn of a message other than CopyDone / Flush / Sync is never end-of-stream (a
   Terminate, Query, ... inside COPY is an error, never a normal end), and after a CopyInResponse the turn of
   a message exceeding the size limit is never silent, and between the start of a statement function and any
   result it sees no message other than Flush / Sync passed without a reply and without a result (no CopyData
   is ever skipped on its way to the reading handler, whatever its payload spells) *)
Theorem C13_model_satisfies_strict : forall sc,
  (forall v after rest, start (cfg_of_case sc) (sc_raw sc) = Some (v, after, rest) -> v <> version_ssl) ->
  oracle_C13_strict sc (run_case sc) = true.
Proof. exact oracle_C13_strict_model. Qed.
Print Assumptions C13_model_satisfies_strict.

(* ... and a failing COPY never costs the connection: for every configuration (COPY handlers included) and client
   stream, when the server closes the connection while client messages are still to come, the message it handled
   last is a Terminate or one it could not read (truncated, malformed) — never a handler error, which is reported
   with ErrorResponse + ReadyForQuery and leaves the session usable *)
Theorem C13_model_never_drops_the_connection : forall sc,
  (forall v after rest, start (cfg_of_case sc) (sc_raw sc) = Some (v, after, rest) -> v <> version_ssl) ->
  oracle_early_scan sc (run_case sc) = true.
Proof. exact oracle_early_scan_model. Qed.
Print Assumptions C13_model_never_drops_the_connection.

(* ... and without reference to turn markers (so also for logs of pipelined delivery): the payloads handed to COPY
   handlers over the whole connection are, in order and each at most once, bodies of CopyData messages within the
   limit that the client sent — nothing out of a Sync/Flush body, a skipped message, a Query *)
Theorem C13_payloads_are_sent_payloads : forall sc,
  (forall v after rest, start (cfg_of_case sc) (sc_raw sc) = Some (v, after, rest) -> v <> version_ssl) ->
  oracle_data_budget sc (run_case sc) = true.
Proof. exact oracle_data_budget_model. Qed.
Print Assumptions C13_payloads_are_sent_payloads.

Definition ex_copy_stmt : stmt :=
  {| s_id := 7; s_cols := [ {| c_name := bs "a"; c_table := 0; c_attrno := 0; c_oid := 25; c_width := -1 |} ];
     s_poids := []; s_prog := [HCopyIn 0; HCopyRead; HCopyRead; HCopyRead; HComplete (bs "COPY 2")];
     s_stop := true; s_ret := RetNil |}.
Definition ex_copy_case : scase :=
  {| sc_limit := 0; sc_auth := None; sc_params := []; sc_version := []; sc_tls := false; sc_mws := [];
     sc_term := None;
     sc_parse := [(bs "copy", POk [ex_copy_stmt])];
     sc_raw := ((let body := be32 196608 ++ cstr (bs "user") ++ cstr (bs "a") ++ [x00] in be32 (4 + lenZ body) ++ body) ++
               client_msg x51 (cstr (bs "copy")) ++ client_msg x64 (bs "r1") ++ client_msg x64 (bs "r2") ++ client_msg x63 [] ++
               client_msg x64 (bs "stray") ++
               client_msg x51 (cstr (bs "copy")) ++ client_msg x64 (bs "r3") ++ client_msg x66 (cstr (bs "stop")) ++
               client_msg x51 (cstr (bs "copy")))%list;
     sc_tlsin := None |}.
Example C13_ex_model :
  List.length (client_frames ex_copy_case) = 9%nat /\
  List.length (filter (fun r => match r with OData _ => true | _ => false end) (opres_evs (run_case ex_copy_case))) = 3%nat /\
  List.length (filter (fun m => match m with BCopyIn _ _ => true | _ => false end) (outs (run_case ex_copy_case))) = 3%nat /\
  oracle_C13 ex_copy_case (run_case ex_copy_case) = true /\ oracle_C13_turns ex_copy_case (run_case ex_copy_case) = true /\
  oracle_C13_strict ex_copy_case (run_case ex_copy_case) = true /\ oracle_early_scan ex_copy_case (run_case ex_copy_case) = true.
Proof. vm_compute. repeat split. Qed.
