(* C15 — concurrent connections are isolated.
   In the model a connection's log is a function of the (read-only)
   configuration and of that connection's own byte stream: [serve] takes no
   other connection's state.  Serving N connections under any schedule is, by
   definition, running [serve] once per connection; the projection on a
   connection is its solo run.  The theorem states this for the multi-connection
   system built from per-connection steps. *)
Require Import Wire.Bytes Spec.BackendSpec Wire.Errors Wire.Framing Wire.Session
  Wire.SessionFacts Wire.CommandFacts.
Local Open Scope list_scope.

(* N connections, each with its own session state and remaining frames; a
   schedule is a list of connection indices: the scheduled connection handles its
   next frame *)
Record conn := { k_st : sst; k_fs : list frame; k_tl : rderr; k_log : list ev; k_done : bool }.

Definition conn_step (c : cfg) (k : conn) : conn :=
  if k_done k then k else
  match k_fs k with
  | [] => {| k_st := k_st k; k_fs := []; k_tl := k_tl k; k_log := k_log k ++ [Closed]; k_done := true |}
  | f :: rest =>
      let '(evs, st', fs', kk) := cmd c (k_st k) f rest (k_tl k) in
      match kk with
      | Continue => {| k_st := st'; k_fs := fs'; k_tl := k_tl k; k_log := k_log k ++ Consume :: evs; k_done := false |}
      | Stop => {| k_st := st'; k_fs := fs'; k_tl := k_tl k; k_log := k_log k ++ Consume :: evs ++ [Closed]; k_done := true |}
      end
  end.

Fixpoint upd_nth {A} (l : list A) (i : nat) (x : A) : list A :=
  match l, i with
  | [], _ => []
  | _ :: r, O => x :: r
  | a :: r, S j => a :: upd_nth r j x
  end.

Definition sys_step (c : cfg) (sys : list conn) (i : nat) : list conn :=
  match nth_error sys i with
  | Some k => upd_nth sys i (conn_step c k)
  | None => sys
  end.

Definition sys_run (c : cfg) (sys : list conn) (sched : list nat) : list conn := fold_left (sys_step c) sched sys.

(* the number of steps connection i took under a schedule *)
Definition steps_of (i : nat) (sched : list nat) : nat := length (filter (Nat.eqb i) sched).

Fixpoint iter {A} (n : nat) (f : A -> A) (x : A) : A := match n with O => x | S k => iter k f (f x) end.

Lemma nth_upd_same {A} (l : list A) i x k : nth_error l i = Some k -> nth_error (upd_nth l i x) i = Some x.
Proof. revert i. induction l as [|a r IH]; intros [|i] H; cbn in *; try discriminate; auto. Qed.
Lemma nth_upd_other {A} (l : list A) i j x : i <> j -> nth_error (upd_nth l i x) j = nth_error l j.
Proof. revert i j. induction l as [|a r IH]; intros [|i] [|j] H; cbn; auto; try congruence. Qed.

(* isolation: under EVERY schedule, connection j ends up exactly where it would
   have got by taking the same number of its own steps alone *)
Theorem C15_isolation : forall c sched sys j k,
  nth_error sys j = Some k ->
  nth_error (sys_run c sys sched) j = Some (iter (steps_of j sched) (conn_step c) k).
Proof.
  intros c sched. induction sched as [|i sched IH]; intros sys j k H; cbn [sys_run fold_left steps_of filter length iter].
  - exact H.
  - unfold sys_run in IH. unfold sys_step at 2. destruct (nth_error sys i) as [ki|] eqn:E.
    + destruct (Nat.eqb_spec j i) as [->|N].
      * rewrite H in E. injection E as <-. cbn [length iter]. apply IH. eapply nth_upd_same; eauto.
      * apply IH. rewrite nth_upd_other by congruence. exact H.
    + destruct (Nat.eqb_spec j i) as [->|N]; [congruence|]. apply IH. exact H.
Qed.
Print Assumptions C15_isolation.

(* a connection's steps, taken alone, produce the log of the sequential loop *)
Theorem C15_solo_is_loop : forall c fuel st fs tl pre,
  (length fs < fuel)%nat ->
  exists n, k_log (iter n (conn_step c) {| k_st := st; k_fs := fs; k_tl := tl; k_log := pre; k_done := false |})
            = pre ++ loop fuel c st fs tl.
Proof.
  intros c fuel. induction fuel as [|fuel IH]; intros st fs tl pre Hl; [lia|].
  destruct fs as [|f rest].
  - exists 1%nat. reflexivity.
  - cbn [loop]. destruct (cmd c st f rest tl) as [[[evs st'] fs'] kk] eqn:E.
    pose proof (cmd_consumes _ _ _ _ _ _ _ _ _ E) as Hc.
    destruct kk.
    + destruct (IH st' fs' tl (pre ++ Consume :: evs)) as [n Hn]; [cbn [length] in Hl; lia|].
      exists (S n). cbn [iter]. unfold conn_step at 2. cbn [k_done k_fs k_st k_tl k_log]. rewrite E.
      rewrite Hn. rewrite <- app_assoc. reflexivity.
    + exists 1%nat. cbn [iter]. unfold conn_step. cbn [k_done k_fs k_st k_tl k_log]. rewrite E.
      reflexivity.
Qed.
Print Assumptions C15_solo_is_loop.
