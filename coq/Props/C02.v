(* C02 — every byte the server sends is a well-formed backend message. *)
Require Import Wire.Bytes Spec.BackendSpec Spec.BackendSpecFacts Wire.WriterModel Wire.WriterFacts.
Local Open Scope list_scope.

(* the specification is a bijection: well-formed message lists <-> byte strings
   accepted by the strict grammar (known type, length = 4 + body, counts matched,
   strings NUL-terminated, ErrorResponse = (code, text)* 0, nothing left over) *)
Theorem C02_codec : forall ms, forallb wf_msg ms = true -> parse_stream (enc_stream ms) = Some ms.
Proof. exact parse_enc_stream. Qed.
Print Assumptions C02_codec.

Theorem C02_grammar_exact : forall bs ms,
  parse_stream bs = Some ms <-> (forallb wf_msg ms = true /\ enc_stream ms = bs).
Proof. exact parse_stream_iff. Qed.
Print Assumptions C02_grammar_exact.

(* every library builder (the exact sequence of Writer calls it makes), started in
   ANY writer state — leftover bytes of an abandoned frame, latched error — delivers
   exactly the encoding of its message in one write, or nothing at all when the
   transport fails; it leaves an empty frame and a clear latch *)
Theorem C02_builders : forall m w,
  let (w', rs) := wrun w (msg_ops m) in
  w_frame w' = [] /\ w_latch w' = false /\ w_broken w' = w_broken w /\
  (if w_broken w then w_sink w' = w_sink w /\ rs = [WErr]
   else w_sink w' = w_sink w ++ [enc_bmsg m] /\ rs = [WOk]).
Proof. exact builder_correct. Qed.
Print Assumptions C02_builders.

(* a rejected or abandoned row/message (Start, some Add calls, no End) sends nothing *)
Theorem C02_abandon : forall t adds w,
  forallb is_add adds = true ->
  let (w', rs) := wrun w (WStart t :: adds) in
  w_sink w' = w_sink w /\ rs = [] /\ w_broken w' = w_broken w.
Proof. exact abandoned_silent. Qed.
Print Assumptions C02_abandon.

(* any interleaving of completed and abandoned messages: the transport receives
   exactly the encodings of the completed ones, in order — partial bytes never
   corrupt the next message — hence the output parses as those messages *)
Theorem C02_render : forall is w,
  forallb item_ok is = true -> w_broken w = false ->
  w_sink (fst (wrun w (flat_map item_ops is))) = w_sink w ++ delivered is /\
  w_broken (fst (wrun w (flat_map item_ops is))) = false /\
  ~ In WPanic (snd (wrun w (flat_map item_ops is))).
Proof. exact render_correct. Qed.
Print Assumptions C02_render.

From Coq Require Import String.
Local Open Scope string_scope.
Example C02_ex :
  let w0 := {| w_frame := bs "garbage"; w_latch := true; w_sink := []; w_broken := false |} in
  let is := [Abandoned x44 [WInt16 2; WInt32 3; WBytes (bs "abc")];
             Done (BError [(x53, bs "ERROR"); (x43, bs "22012"); (x4d, bs "division by zero")]);
             Done (BReady x49)] in
  parse_stream (List.concat (w_sink (fst (wrun w0 (flat_map item_ops is))))) =
  Some [BError [(x53, bs "ERROR"); (x43, bs "22012"); (x4d, bs "division by zero")]; BReady x49].
Proof. vm_compute. reflexivity. Qed.

(* a handler-supplied string containing NUL has no well-formed encoding: the
   hypothesis wf_msg is necessary *)
Theorem C02_nul_refuted : exists m, wf_msg m = false /\ parse_stream (enc_bmsg m) <> Some [m].
Proof. exists (BComplete [x41; x00; x42]). split; [reflexivity|]. vm_compute. discriminate. Qed.
