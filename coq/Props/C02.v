(* C02 — every byte the server sends is a well-formed backend message. *)
Require Import Wire.Bytes Spec.BackendSpec Spec.BackendSpecFacts Wire.WriterModel Wire.WriterFacts.
Local Open Scope list_scope.

(* the specification is a bijection: well-formed message lists <-> byte strings
   accepted by the strict grammar (known type, length = 4 + body, counts matched,
   strings NUL-terminated, ErrorResponse = (code, text)* 0, nothing left over) *)
Theorem C02_codec : forall ms, forallb wf_msg ms = true -> parse_stream (enc_stream ms) = Some ms.
Proof. exact parse_enc_stream. Qed.
Print Assumptions C02_codec.

Theorem C02_grammar_exact : forall bs ms,
  parse_stream bs = Some ms <-> (forallb wf_msg ms = true /\ enc_stream ms = bs).
Proof. exact parse_stream_iff. Qed.
Print Assumptions C02_grammar_exact.

(* every library builder (the exact sequence of Writer calls it makes), started in
   ANY writer state — leftover bytes of an abandoned frame, latched error — delivers
   exactly the encoding of its message in one write, or nothing at all when the
   transport fails; it leaves an empty frame and a clear latch *)
Theorem C02_builders : forall m w,
  let (w', rs) := wrun w (msg_ops m) in
  w_frame w' = [] /\ w_latch w' = false /\ w_broken w' = w_broken w /\
  (if w_broken w then w_sink w' = w_sink w /\ rs = [WErr]
   else w_sink w' = w_sink w ++ [enc_bmsg m] /\ rs = [WOk]).
Proof. exact builder_correct. Qed.
Print Assumptions C02_builders.

(* a rejected or abandoned row/message (Start, some Add calls, no End) sends nothing *)
Theorem C02_abandon : forall t adds w,
  forallb is_add adds = true ->
  let (w', rs) := wrun w (WStart t :: adds) in
  w_sink w' = w_sink w /\ rs = [] /\ w_broken w' = w_broken w.
Proof. exact abandoned_silent. Qed.
Print Assumptions C02_abandon.

(* any interleaving of completed and abandoned messages: the transport receives
   exactly the encodings of the completed ones, in order — partial bytes never
   corrupt the next message — hence the output parses as those messages *)
Theorem C02_render : forall is w,
  forallb item_ok is = true -> w_broken w = false ->
  w_sink (fst (wrun w (flat_map item_ops is))) = w_sink w ++ delivered is /\
  w_broken (fst (wrun w (flat_map item_ops is))) = false /\
  ~ In WPanic (snd (wrun w (flat_map item_ops is))).
Proof. exact render_correct. Qed.
Print Assumptions C02_render.

From Coq Require Import String.
Local Open Scope string_scope.
Example C02_ex :
  let w0 := {| w_frame := bs "garbage"; w_latch := true; w_sink := []; w_broken := false |} in
  let is := [Abandoned x44 [WInt16 2; WInt32 3; WBytes (bs "abc")];
             Done (BError [(x53, bs "ERROR"); (x43, bs "22012"); (x4d, bs "division by zero")]);
             Done (BReady x49)] in
  parse_stream (List.concat (w_sink (fst (wrun w0 (flat_map item_ops is))))) =
  Some [BError [(x53, bs "ERROR"); (x43, bs "22012"); (x4d, bs "division by zero")]; BReady x49].
Proof. vm_compute. reflexivity. Qed.

(* a handler-supplied string containing NUL has no well-formed encoding: the
   hypothesis wf_msg is necessary *)
Theorem C02_nul_refuted : exists m, wf_msg m = false /\ parse_stream (enc_bmsg m) <> Some [m].
Proof. exists (BComplete [x41; x00; x42]). split; [reflexivity|]. vm_compute. discriminate. Qed.

(* ---------- every message of every connection ---------- *)
Require Import Wire.Errors Wire.Framing Wire.Session Wire.SessionFacts Wire.Case Spec.WfFacts Spec.WfCase.
Local Open Scope list_scope.
Local Open Scope Z_scope.

(* For every configuration whose handler-supplied data has an encoding at all — column
   names, command tags, parameter keys/values, version and the texts of handler errors are
   NUL-free (client-supplied names that end up in messages are NUL-free by construction,
   and this is proved, not assumed), tables and parameter lists have fewer than 65536
   entries, values are below a gigabyte — EVERY message the session sends, for every raw
   byte stream and every TLS plaintext, in every phase (authentication, parameters, simple
   and extended queries, COPY, errors of every origin: parser, handler, library, size
   limit), is well formed: known type, counts within 16 bits and equal to the items that
   follow, strings NUL-free, field lengths within 31 bits, ErrorResponse fields with
   non-zero codes. *)
Theorem C02_session : forall c raw tls, wf_cfg c -> forallb wf_bmsg (outs (serve c raw tls)) = true.
Proof. exact serve_wf. Qed.
Print Assumptions C02_session.

(* for a scripted case the hypothesis is a decidable check, and the bytes the server sends
   parse under the strict grammar to exactly the messages it meant (C02_codec), provided
   each message fits the 32-bit length field *)
Theorem C02_case_stream_parses : forall sc,
  wf_case sc = true -> forallb wf_size (outs (run_case sc)) = true ->
  parse_stream (enc_stream (outs (run_case sc))) = Some (outs (run_case sc)).
Proof. exact case_stream_parses. Qed.
Print Assumptions C02_case_stream_parses.

Definition ex_case : scase :=
  {| sc_limit := 64; sc_auth := None; sc_params := [(bs "TimeZone", bs "UTC")]; sc_version := bs "15"; sc_tls := false; sc_mws := [];
     sc_term := None;
     sc_parse := [(bs "q", POk [ {| s_id := 1; s_cols := [ {| c_name := bs "a"; c_table := -1; c_attrno := 70000; c_oid := 25; c_width := -2 |} ];
                                   s_poids := [23; -1]; s_prog := [HRow [VText (bs "x")]; HRow [VNil; VNil]; HCopyIn 1; HComplete (bs "SELECT 1")];
                                   s_stop := false; s_ret := RetErr (ESource (bs "f.go") (-3) (bs "fn") (EHint (bs "h") (EBase (bs "boom")))) |} ]);
                  (bs "bad", PErr (ECode (bs "42601") (EBase (bs "syntax"))))];
     sc_raw := ((let body := be32 196608 ++ cstr (bs "user") ++ cstr (bs "a") ++ [x00] in be32 (4 + lenZ body) ++ body) ++
               client_msg x51 (cstr (bs "q")) ++ client_msg x51 (cstr (bs "bad")) ++
               client_msg x50 (cstr (bs "s") ++ cstr (bs "q") ++ be16 0) ++ client_msg x44 (x53 :: cstr (bs "s")) ++
               client_msg x42 (cstr (bs "nosuch") ++ cstr (bs "zz") ++ be16 0 ++ be16 0 ++ be16 0) ++ client_msg x53 [] ++
               client_msg x7a [] ++ (x51 :: be32 1000 ++ [x00]))%list;
     sc_tlsin := None |}.
Example C02_ex_session :
  wf_case ex_case = true /\ forallb wf_size (outs (run_case ex_case)) = true /\
  List.length (outs (run_case ex_case)) = 23%nat /\
  parse_stream (enc_stream (outs (run_case ex_case))) = Some (outs (run_case ex_case)).
Proof. vm_compute. repeat split. Qed.
