(* C08 — Bind parameters and format codes reach the handler exactly. *)
Require Import Wire.Bytes Spec.BackendSpec Spec.BackendSpecFacts Wire.Errors Wire.Framing Wire.Session
  Wire.SessionFacts Wire.CommandFacts Wire.WireFacts.
Local Open Scope list_scope.

(* for every portal/statement name, every list of parameter format codes, every
   list of parameter values (NULL = None, empty = Some [], any bytes) and every list
   of result format codes within the protocol's 16-bit counts: the Bind message is
   decoded to exactly what was sent *)
Theorem C08_bind_roundtrip : forall r junk,
  wf_bind r = true -> decode_bind_raw (enc_bind r ++ junk) = Some r.
Proof. exact decode_bind_raw_enc. Qed.
Print Assumptions C08_bind_roundtrip.

(* values reach the handler unchanged, in order, same count *)
Theorem C08_values : forall pf vs i, map snd (tag_params pf i vs) = vs.
Proof. exact tag_params_values. Qed.
Print Assumptions C08_values.

(* the tagging rule: no codes -> text; one code -> all; n codes -> positional *)
Theorem C08_rule_none : forall i, param_fmt [] i = 0%Z.
Proof. exact param_fmt_none. Qed.
Theorem C08_rule_one : forall f i, param_fmt [f] i = f.
Proof. exact param_fmt_one. Qed.
Theorem C08_rule_positional : forall pf i f, nth_error pf i = Some f -> param_fmt pf i = f.
Proof. exact param_fmt_positional. Qed.
Theorem C08_tagged : forall pf vs i k v,
  nth_error vs k = Some v -> nth_error (tag_params pf i vs) k = Some (param_fmt pf (i + k), v).
Proof. exact tag_params_nth. Qed.
Print Assumptions C08_tagged.

(* result formats: one function decides both the code announced by Describe
   (portal) and the code each DataRow field is encoded with *)
Theorem C08_result_rule : (forall i, fmt_for [] i = 0%Z) /\ (forall f i, fmt_for [f] i = f) /\
  (forall rf i f, nth_error rf i = Some f -> fmt_for rf i = f).
Proof. split; [exact fmt_for_none|split; [exact fmt_for_one|exact fmt_for_positional]]. Qed.
Print Assumptions C08_result_rule.

(* Execute hands the statement function exactly the portal's tagged parameters (C07_execute_runs_bound),
   a statement Describe announces exactly the declared parameter types *)
Theorem C08_paramdesc : forall st name junk s evs st' k,
  nul_free name = true -> alist_get name (st_stmts st) = Some s ->
  do_describe st (x53 :: name ++ x00 :: junk) = (evs, st', k) ->
  exists m, outs evs = [BParamDesc (map (fun o => (o mod 4294967296)%Z) (s_poids s)); m].
Proof.
  intros st name junk s evs st' k Hn G H. unfold do_describe in H.
  rewrite (take_cstr_app name junk Hn) in H.
  replace (Byte.eqb x53 x53) with true in H by reflexivity. rewrite G in H.
  injection H as <- <- <-. eexists. reflexivity.
Qed.
Print Assumptions C08_paramdesc.

(* ---------- the whole connection against the executable oracle ---------- *)
Require Import Wire.RobustFacts Wire.Case Spec.Oracles Spec.OracleFacts Spec.OracleFactsNames.

(* the oracle's rules for format codes agree with the model's, for every list of codes *)
Theorem C08_param_rule_agrees : forall pf n vals i, n = (i + List.length vals)%nat ->
  params_ok pf n i vals (tag_params pf i vals) = true.
Proof. intros pf n vals i. exact (params_tagged_ok pf n vals i). Qed.
Print Assumptions C08_param_rule_agrees.
Theorem C08_describe_rule_agrees : forall s rf, describe_ok (sdef_of s) rf (describe_cols (s_cols s) rf) = true.
Proof. exact describe_cols_ok. Qed.
Print Assumptions C08_describe_rule_agrees.

(* and the whole connection passes the oracle: every execution receives exactly the
   values, NULLs and format tags of the Bind its portal came from; every Describe
   announces the declared parameter types and the result formats of that Bind *)
Theorem C08_model_satisfies_oracle : forall sc,
  case_nocopy sc = true ->
  (forall v after rest, start (cfg_of_case sc) (sc_raw sc) = Some (v, after, rest) -> v <> version_ssl) ->
  oracle_names sc (run_case sc) = true.
Proof. exact oracle_names_model. Qed.
Print Assumptions C08_model_satisfies_oracle.

(* every ParameterDescription of every connection announces exactly the declared parameter types (mod 2^32, as the
   wire carries them) of a configured statement: nothing a client put into a Parse message, on this or any other
   connection, shows up in it *)
Require Import Spec.OracleFactsRows.
Theorem C08_connection_paramdescs : forall sc, Forall (paramdesc_from sc) (Oracles.outs (run_case sc)).
Proof. exact paramdescs_come_from_statements. Qed.
Print Assumptions C08_connection_paramdescs.
