(* C05 — Simple Query: ordered results, then exactly one ReadyForQuery; the
   result writer is a small state machine.  Statements only. *)
Require Import Wire.Bytes Spec.BackendSpec Wire.Errors Wire.Framing Wire.Session
  Wire.SessionFacts Wire.CommandFacts.
Local Open Scope list_scope.
Local Open Scope Z_scope.

(* a blank query is answered EmptyQueryResponse, ReadyForQuery without consulting the parser
   (for every configuration: the parser oracle [cfg_parse c] is not applied) *)
Theorem C05_blank : forall c q junk fs tl,
  nul_free q = true -> is_blank q = true ->
  simple_query c (q ++ x00 :: junk) fs tl = ([Out BEmptyQuery; Out ready], fs, Continue).
Proof. exact simple_query_blank. Qed.
Print Assumptions C05_blank.

(* every answered Query — any text, any parser outcome, any number of statements,
   any handler programs, any encoder — produces messages that end with exactly one
   ReadyForQuery; there is at most one ErrorResponse and it is the message right
   before that ReadyForQuery (so no later statement produced output after it) *)
Theorem C05_cycle : forall c body fs tl evs fs' k,
  simple_query c body fs tl = (evs, fs', k) -> k = Continue ->
  (length fs' <= length fs)%nat /\
  exists pre, outs evs = pre ++ [ready] /\ no_ready pre = true /\
    ((no_error pre = true) \/ (exists pre' e, pre = pre' ++ [BError e] /\ no_error pre' = true)).
Proof. exact simple_query_cycle. Qed.
Print Assumptions C05_cycle.

(* the result writer, for every sequence of operations from every writer state:
   only DataRow/CommandComplete/CopyInResponse are emitted; the row counter grows by
   exactly the DataRows delivered; a closed writer stays closed and emits nothing;
   an open writer emits at most one CommandComplete *)
Theorem C05_writer : forall c cols fmts stop ops w fs tl evs w' fs' res,
  run_ops c cols fmts stop ops w fs tl = (evs, w', fs', res) ->
  forallb handler_msg (outs evs) = true /\
  w_written w' = w_written w + delivered_rows evs /\
  (w_closed w = true -> w_closed w' = true /\ outs evs = []) /\
  (w_closed w = false -> (countb is_complete (outs evs) <= 1)%nat) /\
  (length fs' <= length fs)%nat.
Proof. exact run_ops_spec. Qed.
Print Assumptions C05_writer.

(* one operation: a failing call (wrong arity, unencodable value, closed writer,
   Empty after rows) emits nothing and leaves the counter unchanged *)
Theorem C05_bad_row : forall c cols fmts o w fs tl evs w' fs' st,
  run_op c cols fmts o w fs tl = (evs, w', fs', st) -> st <> StOk ->
  outs evs = [] /\ w_written w' = w_written w.
Proof.
  intros c cols fmts o w fs tl evs w' fs' st H Hs.
  destruct (run_op_spec _ _ _ _ _ _ _ _ _ _ _ H) as (_ & _ & W & _ & _ & F & _).
  specialize (F Hs). split; [exact F|]. rewrite W. unfold delivered_rows. rewrite F. cbn. lia.
Qed.
Print Assumptions C05_bad_row.

From Coq Require Import String.
Local Open Scope string_scope.
Definition ex_cfg : cfg :=
  {| cfg_limit := 0; cfg_auth := None; cfg_params := []; cfg_version := []; cfg_tls := false;
     cfg_mws := []; cfg_term := None;
     cfg_parse := fun _ => POk [ {| s_id := 1; s_cols := [ {| c_name := bs "a"; c_table := 0; c_attrno := 0; c_oid := 25; c_width := 0 |} ];
                                    s_poids := []; s_prog := [HRow [VText (bs "x")]; HRow [VText (bs "y"); VText (bs "z")]; HWritten; HComplete (bs "SELECT 1"); HRow [VText (bs "late")]];
                                    s_stop := false; s_ret := RetNil |} ];
     cfg_encode := fun _ _ v => match v with VText s => EncBytes s | _ => EncNull end |}.
(* a concrete cycle: one good row, one wrong-arity row (not counted), Written = 1, row after completion rejected *)
Example C05_ex :
  let '(evs, _, _) := simple_query ex_cfg (bs "select" ++ [x00])%list [] REof in
  filter (fun e => match e with CbOp _ => true | _ => false end) evs =
  [CbOp OOk; CbOp (OErr (e_arity 1 2)); CbOp (OWritten 1); CbOp OOk; CbOp (OErr e_closed_writer)] /\
  List.length (outs evs) = 4%nat.
Proof. vm_compute. split; reflexivity. Qed.

(* ---------- the whole connection against the executable oracle ---------- *)
Require Import Wire.RobustFacts Wire.Case Spec.Oracles Spec.OracleFacts.

(* every answered simple Query of the model — any query text, parser outcome, statement
   list and handler programs without COPY, any encoder that does not panic in text
   format — passes the oracle's cycle grammar [cycle_ok]: RowDescription / statement
   start / DataRow, CommandComplete each acknowledged to the handler, Written() equal to
   the rows delivered so far, failing calls emit nothing, Empty only on an untouched
   writer, nothing after the ErrorResponse but the single ReadyForQuery, which is last *)
Theorem C05_cycle_satisfies_oracle : forall c body rest tl evs fs',
  cfg_nocopy c -> text_safe c ->
  simple_query c body rest tl = (evs, fs', Continue) -> cycle_ok evs = true.
Proof. exact query_cycle_ok. Qed.
Print Assumptions C05_cycle_satisfies_oracle.

(* and for a whole connection (any startup packet, middleware outcomes, byte stream):
   the model's log passes [oracle_C05], the predicate evaluated on the implementation *)
Theorem C05_model_satisfies_oracle : forall sc,
  case_nocopy sc = true ->
  (forall v after rest, start (cfg_of_case sc) (sc_raw sc) = Some (v, after, rest) -> v <> version_ssl) ->
  oracle_C05 sc (run_case sc) = true.
Proof. exact oracle_C05_model_auth. Qed.
Print Assumptions C05_model_satisfies_oracle.

Definition ex_case : scase :=
  {| sc_limit := 0; sc_auth := None; sc_params := []; sc_version := []; sc_tls := false; sc_mws := [];
     sc_term := None;
     sc_parse := [(bs "select", cfg_parse ex_cfg (bs "select"));
                  (bs "two", POk [ {| s_id := 2; s_cols := []; s_poids := []; s_prog := [HEmpty; HEmpty]; s_stop := true; s_ret := RetLast |};
                                   {| s_id := 3; s_cols := []; s_poids := []; s_prog := [HComplete (bs "never")]; s_stop := false; s_ret := RetNil |} ])];
     sc_raw := ((let body := be32 196608 ++ cstr (bs "user") ++ cstr (bs "a") ++ [x00] in be32 (4 + lenZ body) ++ body) ++
               client_msg x51 (cstr (bs "select")) ++ client_msg x51 (cstr (bs " ")) ++ client_msg x51 (cstr (bs "two")) ++
               client_msg x51 (cstr (bs "unknown")))%list;
     sc_tlsin := None |}.
Example C05_ex_model :
  sc_auth ex_case = None /\ case_nocopy ex_case = true /\
  List.length (client_frames ex_case) = 4%nat /\
  List.length (outs (run_case ex_case)) = 16%nat /\
  oracle_C05 ex_case (run_case ex_case) = true.
Proof. vm_compute. repeat split. Qed.
