(* C04 — no client input can crash, wedge or balloon the server (the logic part;
   process survival, goroutine liveness and the Go allocator are observed by the harness). *)
Require Import Wire.Bytes Spec.BackendSpec Wire.Errors Wire.Framing Wire.Session Wire.SessionFacts Wire.CommandFacts
  Wire.WireFacts Wire.RobustFacts Wire.ReaderModel Wire.ReaderFacts Wire.ReaderExec Wire.Transport Wire.Copy Wire.CopyFacts
  Wire.Params Wire.ParamsFacts.
Local Open Scope list_scope.
Local Open Scope Z_scope.

(* for every configuration whose encoder does not panic in the text format, every
   byte stream, every handler program: a simple query never takes the process down
   (a panic inside an Execute is recovered by the portal cache and becomes an
   ErrorResponse: [do_execute] has no crash outcome at all) *)
Theorem C04_no_crash : forall c ss fs tl evs fs' crashed,
  text_safe c -> run_stmts c ss fs tl = (evs, fs', crashed) -> crashed = false.
Proof. exact run_stmts_no_crash. Qed.
Print Assumptions C04_no_crash.

(* the library's helpers on client-controlled data are total: the accessors
   (C03_accessor_within), the binary COPY row reader ([decode_all] is a total function
   whose outcomes are rows, end or failure) and ParseParameters *)
Theorem C04_params_total : forall q, pp_checked q = Some (parse_parameters q).
Proof. exact pp_checked_total. Qed.
Print Assumptions C04_params_total.

(* handling of a connection ends for EVERY byte sequence in every phase (startup, TLS
   negotiation, authentication, queries, COPY): the log of [serve] ends with Closed *)
Theorem C04_ends : forall c raw tls, exists pre, serve c raw tls = pre ++ [Closed].
Proof. exact serve_ends. Qed.
Print Assumptions C04_ends.

(* every iteration of the command loop takes at least one message off the stream
   and never puts anything back *)
Theorem C04_progress : forall c st f rest tl evs st' fs' k,
  cmd c st f rest tl = (evs, st', fs', k) -> (length fs' <= length rest)%nat.
Proof. exact cmd_consumes. Qed.
Print Assumptions C04_progress.

(* memory: a message whose declared length exceeds the limit (or is below the minimum)
   allocates nothing — the reader's heap is untouched, whatever length it declares ... *)
Theorem C04_no_alloc_for_exceeding : forall s t s' t' size,
  x_untyped s t = (s', XSizeErr t' size) ->
  x_heap s' = x_heap s /\ x_msg s' = x_msg s /\ ((size > eff_limit (x_limit s)) \/ size < 0).
Proof. exact size_error_allocates_nothing. Qed.
Print Assumptions C04_no_alloc_for_exceeding.

(* ... and a message within the limit allocates at most max(size, 4096) bytes *)
Theorem C04_alloc_bound : forall h size,
  let h' := rstep h (RReset size) in
  h_next h' = h_next h \/ (h_next h' = S (h_next h) /\ h_cap h' = Nat.max size granule).
Proof. exact reset_alloc_bound. Qed.
Print Assumptions C04_alloc_bound.

(* malformed or truncated messages never reach callbacks as fabricated data: a
   truncated message yields no frame at all (callbacks only ever receive the bodies of
   complete frames), and a Bind whose counts/lengths are inconsistent is not decoded *)
Theorem C04_truncated_no_frame : forall f L t d r,
  4 <= d < 4294967296 -> d - 4 <= eff_limit L -> takeZ (d - 4) r = None ->
  forall x, In x (fst (frames_fuel (S f) L (t :: be32 d ++ r))) -> x = FTail.
Proof. exact frames_step_trunc. Qed.
Print Assumptions C04_truncated_no_frame.

Theorem C04_malformed_bind_drops : forall st body,
  decode_bind body = None -> do_bind st body = ([], st, Stop).
Proof. intros st body H. unfold do_bind. rewrite H. reflexivity. Qed.
Print Assumptions C04_malformed_bind_drops.

(* ---------- the whole connection ---------- *)
Require Import Spec.KindFacts Spec.Oracles Spec.OracleFacts Spec.OracleFactsLife.

(* for every configuration whose encoder does not panic in text format, every raw byte
   stream and every TLS plaintext, in every phase: the log of the connection contains no
   crash and no exhausted-fuel event, and it ends with the connection being closed *)
Theorem C04_connection_no_crash : forall c raw tls, text_safe c ->
  existsb crashp (serve c raw tls) = false /\ ends_closed (serve c raw tls) = true.
Proof. exact serve_no_crash. Qed.
Print Assumptions C04_connection_no_crash.

(* malformed, truncated, skipped and oversized messages never reach the parse callback: for every configuration
   and client stream the texts handed to the parse function are, in order and each at most once, query texts of
   complete Query / Parse messages within the limit that the client sent (the executable oracle
   [oracle_parse_budget], evaluated on every implementation log of C03, C04 and C06, holds of the model) *)
Require Import Wire.Case Spec.Oracles Spec.OracleFactsParse.
Theorem C04_parser_sees_only_complete_messages : forall sc,
  (forall v after rest, start (cfg_of_case sc) (sc_raw sc) = Some (v, after, rest) -> v <> version_ssl) ->
  oracle_parse_budget sc (run_case sc) = true.
Proof. exact oracle_parse_budget_model. Qed.
Print Assumptions C04_parser_sees_only_complete_messages.
