(* C06 — Extended Query: designated replies, one ReadyForQuery per Sync, skip on error. *)
Require Import Wire.Bytes Spec.BackendSpec Wire.Errors Wire.Framing Wire.Session
  Wire.SessionFacts Wire.CommandFacts.
Local Open Scope list_scope.
Local Open Scope Z_scope.

(* while skipping to the next Sync, every message other than Sync (and Terminate)
   — including simple Query, unknown and oversized messages — produces no output,
   invokes no callback and changes no state *)
Theorem C06_discard : forall c st t body rest tl,
  st_discard st = true -> Byte.eqb t x53 = false -> Byte.eqb t x58 = false ->
  cmd c st (FMsg t body) rest tl = ([], st, rest, Continue).
Proof. exact cmd_discard. Qed.
Print Assumptions C06_discard.

Theorem C06_discard_oversize : forall c st t size rest tl,
  st_discard st = true -> Byte.eqb t x53 = false ->
  cmd c st (FOver t size None) rest tl = ([], st, rest, Continue) /\
  cmd c st (FBad t size) rest tl = ([], st, rest, Continue).
Proof. exact cmd_discard_oversize. Qed.
Print Assumptions C06_discard_oversize.

(* Sync: exactly one ReadyForQuery, in every state, and the skipping ends *)
Theorem C06_sync : forall c st body rest tl,
  cmd c st (FMsg x53 body) rest tl = ([Out ready], set_discard st false, rest, Continue).
Proof. exact cmd_sync. Qed.
Print Assumptions C06_sync.

(* Flush: nothing *)
Theorem C06_flush : forall c st body rest tl,
  st_discard st = false -> cmd c st (FMsg x48 body) rest tl = ([], st, rest, Continue).
Proof. exact cmd_flush. Qed.
Print Assumptions C06_flush.

(* Parse / Bind / Describe / Close: the designated reply, or exactly one
   ErrorResponse which raises the skip flag; never a ReadyForQuery *)
Theorem C06_parse : forall c st body evs st' k,
  do_parse c st body = (evs, st', k) -> k = Continue ->
  ext_reply st st' evs (fun ms => match ms with [BParseComplete] => true | _ => false end).
Proof. exact do_parse_reply. Qed.
Print Assumptions C06_parse.

Theorem C06_bind : forall st body evs st' k,
  do_bind st body = (evs, st', k) -> k = Continue ->
  ext_reply st st' evs (fun ms => match ms with [BBindComplete] => true | _ => false end) /\ filter is_cb evs = [].
Proof. exact do_bind_reply. Qed.
Print Assumptions C06_bind.

Theorem C06_describe : forall st body evs st' k,
  do_describe st body = (evs, st', k) -> k = Continue ->
  ext_reply st st' evs (fun ms => match ms with
                                  | [BParamDesc _; BRowDesc _] | [BParamDesc _; BNoData]
                                  | [BRowDesc _] | [BNoData] => true
                                  | _ => false end) /\ filter is_cb evs = [].
Proof. exact do_describe_reply. Qed.
Print Assumptions C06_describe.

Theorem C06_close : forall st body evs st' k,
  do_close st body = (evs, st', k) -> k = Continue ->
  ext_reply st st' evs (fun ms => match ms with [BCloseComplete] => true | _ => false end) /\ filter is_cb evs = [].
Proof. exact do_close_reply. Qed.
Print Assumptions C06_close.

(* Execute: DataRows / CommandComplete from the handler, optionally one
   ErrorResponse last (which raises the skip flag); an unknown portal is such an
   error; no ReadyForQuery; the caches are untouched *)
Theorem C06_execute : forall c st body fs tl evs st' fs' k,
  do_execute c st body fs tl = (evs, st', fs', k) -> k = Continue ->
  (length fs' <= length fs)%nat /\
  ((forallb handler_msg (outs evs) = true /\ st_discard st' = st_discard st) \/
   (exists pre e, outs evs = pre ++ [BError e] /\ forallb handler_msg pre = true /\ st_discard st' = true)) /\
  st_stmts st' = st_stmts st /\ st_portals st' = st_portals st.
Proof. exact do_execute_reply. Qed.
Print Assumptions C06_execute.

(* a message exceeding the size limit: one ErrorResponse; ReadyForQuery exactly
   when the message is not an extended-protocol message *)
Theorem C06_oversize : forall c st t size evs st',
  do_oversize c st t size = (evs, st') -> st_discard st = false ->
  let e := err_msg (Some (e_size_exceeded (eff_limit (cfg_limit c)) size)) in
  (is_ext t = true -> outs evs = [e] /\ st_discard st' = true) /\
  (is_ext t = false -> outs evs = [e; ready] /\ st_discard st' = false) /\
  filter is_cb evs = [] /\ st_stmts st' = st_stmts st /\ st_portals st' = st_portals st.
Proof. exact do_oversize_spec. Qed.
Print Assumptions C06_oversize.

(* replies are produced message by message: the log of the loop on (f :: rest) is
   the reply to f followed by the log of the loop on what f left — by definition of
   [loop]; handling always ends *)
Theorem C06_ends : forall c fuel st fs tl,
  (length fs < fuel)%nat -> exists pre, loop fuel c st fs tl = pre ++ [Closed].
Proof. exact loop_ends. Qed.
Print Assumptions C06_ends.

(* ---------- the whole connection against the executable oracle ---------- *)
Require Import Wire.RobustFacts Wire.Case Spec.Oracles Spec.OracleFacts.

(* The reply discipline as a statement about the WHOLE command loop, in the terms of
   the executable oracle [turn_step]/[turn_fold]/[early_end_ok] of Spec/Oracles.v —
   the very functions that bin/check evaluates on the logs observed on the
   implementation.  For every configuration whose handlers do not use COPY (COPY is
   C13's), every session state whose cached statements came from such a
   configuration, every list of client frames (well-formed, malformed, oversized,
   truncated) and every oracle state matching the session state: the log of the loop
   splits at its Consume markers into one turn per frame handled, every turn passes
   the oracle's rule for its frame (16 rules: designated reply or one ErrorResponse,
   ReadyForQuery exactly for Sync / simple Query / non-extended errors, silence while
   skipping to Sync, ...), the oracle's skip flag tracks the session's, and the
   connection ends before the frames are used up only at a Terminate or at a message
   whose body is malformed. *)
Theorem C06_loop_satisfies_oracle : forall c tl, cfg_nocopy c -> text_safe c -> forall fuel st fs s pre,
  st_nocopy st -> tmatch s st -> no_consume pre = true -> (List.length fs < fuel)%nat ->
  exists ts, split_consume (rev pre) (loop fuel c st fs tl) = (pre ++ endmark fs) :: ts /\
    (match fs with [] => ts = [] | _ :: _ => ts <> [] end) /\
    t_ok (turn_fold s fs ts) = true /\ t_copy (turn_fold s fs ts) = false /\ early_end_ok fs ts = true.
Proof. exact loop_turns. Qed.
Print Assumptions C06_loop_satisfies_oracle.

(* ... and for a whole connection as the harness scripts it (with or without password
   authentication and whatever its outcome, first packet not an SSLRequest, any startup
   packet, any middleware outcomes, any byte stream): the model's log passes [oracle_turns] *)
Theorem C06_model_satisfies_oracle : forall sc,
  case_nocopy sc = true ->
  (forall v after rest, start (cfg_of_case sc) (sc_raw sc) = Some (v, after, rest) -> v <> version_ssl) ->
  oracle_turns sc (run_case sc) = true.
Proof. exact oracle_turns_model_auth. Qed.
Print Assumptions C06_model_satisfies_oracle.

(* non-vacuity: a case with a failing Parse, skipped Bind/Execute, Sync, a Query with
   rows, an unknown message type and an oversized message meets the hypotheses *)
From Coq Require Import String.
Local Open Scope string_scope.
Local Open Scope list_scope.
Definition ex_stmt : stmt :=
  {| s_id := 1; s_cols := [ {| c_name := bs "a"; c_table := 0; c_attrno := 0; c_oid := 25; c_width := 0 |} ];
     s_poids := []; s_prog := [HRow [VText (bs "x")]; HComplete (bs "SELECT 1")]; s_stop := false; s_ret := RetNil |}.
Definition ex_case : scase :=
  {| sc_limit := 16; sc_auth := None; sc_params := []; sc_version := []; sc_tls := false; sc_mws := [true];
     sc_term := Some true;
     sc_parse := [(bs "good", POk [ex_stmt]); (bs "bad", PErr (ECode (bs "42601") (EBase (bs "syntax"))))];
     sc_raw := (let body := be32 196608 ++ cstr (bs "user") ++ cstr (bs "a") ++ [x00] in be32 (4 + lenZ body) ++ body) ++
               client_msg x50 (cstr (bs "s") ++ cstr (bs "bad") ++ be16 0) ++
               client_msg x42 (cstr [] ++ cstr (bs "s") ++ be16 0 ++ be16 0 ++ be16 0) ++
               client_msg x45 (cstr [] ++ be32 0) ++
               client_msg x53 [] ++
               client_msg x50 (cstr (bs "s") ++ cstr (bs "good") ++ be16 0) ++
               client_msg x42 (cstr [] ++ cstr (bs "s") ++ be16 0 ++ be16 0 ++ be16 0) ++
               client_msg x45 (cstr [] ++ be32 0) ++
               client_msg x53 [] ++
               client_msg x51 (cstr (bs "good")) ++
               client_msg x7a [] ++
               client_msg x51 (cstr (bs "a query text beyond the limit")) ++
               client_msg x58 [] ++ client_msg x51 (cstr (bs "good"));
     sc_tlsin := None |}.
Example C06_ex_hypotheses :
  sc_auth ex_case = None /\ case_nocopy ex_case = true /\
  (exists v after rest, start (cfg_of_case ex_case) (sc_raw ex_case) = Some (v, after, rest) /\ v = 196608) /\
  List.length (client_frames ex_case) = 13%nat /\
  List.length (filter (fun e => match e with Consume => true | _ => false end) (run_case ex_case)) = 12%nat /\
  oracle_turns ex_case (run_case ex_case) = true.
Proof. vm_compute. repeat split. do 3 eexists. split; reflexivity. Qed.

(* "exactly one ReadyForQuery per Sync", as a statement over the whole connection: for every scriptable case whose
   handlers use no COPY and every client byte stream — well-formed, malformed, oversized, truncated messages in any
   order — the turn of every Sync message the connection gets to holds exactly one ReadyForQuery. First for every
   log the executable oracle accepts (hence for logs observed on the implementation in lock-step), then for the model. *)
Require Import Spec.OracleFactsSyncs.

Theorem C06_accepted_logs_one_ready_per_sync : forall sc log st ts,
  oracle_turns sc log = true -> t_copy (turn_verdict sc log) = false -> turns log = st :: ts ->
  forall i f t, nth_error (client_frames sc) i = Some f -> nth_error ts i = Some t -> is_sync_frame f = true ->
  readies t = 1%nat.
Proof. exact oracle_turns_one_ready_per_sync. Qed.
Print Assumptions C06_accepted_logs_one_ready_per_sync.

Theorem C06_one_ready_per_sync : forall sc st ts,
  case_nocopy sc = true ->
  (forall v after rest, start (cfg_of_case sc) (sc_raw sc) = Some (v, after, rest) -> v <> version_ssl) ->
  turns (run_case sc) = st :: ts ->
  forall i f t, nth_error (client_frames sc) i = Some f -> nth_error ts i = Some t -> is_sync_frame f = true ->
  readies t = 1%nat.
Proof. exact model_one_ready_per_sync. Qed.
Print Assumptions C06_one_ready_per_sync.

(* non-vacuity: in the example case above the frames 3 and 7 are Syncs that the connection gets to *)
Example C06_ex_syncs :
  let ts := tl (turns (run_case ex_case)) in
  option_map is_sync_frame (nth_error (client_frames ex_case) 3) = Some true /\
  option_map readies (nth_error ts 3) = Some 1%nat /\
  option_map is_sync_frame (nth_error (client_frames ex_case) 7) = Some true /\
  option_map readies (nth_error ts 7) = Some 1%nat.
Proof. vm_compute. repeat split. Qed.

(* ... and "never a ReadyForQuery for the other extended-query messages": the turn of every Parse, Bind, Describe,
   Execute, Close and Flush message with a well-formed body, and of every rejected (oversized / too short) message of
   one of these types, holds no ReadyForQuery — whatever the state (skipping or not), for every log the oracle
   accepts and for the model on every byte stream *)
Theorem C06_accepted_logs_no_ready_for_extended : forall sc log st ts,
  oracle_turns sc log = true -> t_copy (turn_verdict sc log) = false -> turns log = st :: ts ->
  forall i f t, nth_error (client_frames sc) i = Some f -> nth_error ts i = Some t -> ext_frame f = true ->
  readies t = 0%nat.
Proof. exact oracle_turns_no_ready_for_extended. Qed.
Print Assumptions C06_accepted_logs_no_ready_for_extended.

Theorem C06_no_ready_for_extended : forall sc st ts,
  case_nocopy sc = true ->
  (forall v after rest, start (cfg_of_case sc) (sc_raw sc) = Some (v, after, rest) -> v <> version_ssl) ->
  turns (run_case sc) = st :: ts ->
  forall i f t, nth_error (client_frames sc) i = Some f -> nth_error ts i = Some t -> ext_frame f = true ->
  readies t = 0%nat.
Proof. exact model_no_ready_for_extended. Qed.
Print Assumptions C06_no_ready_for_extended.

(* non-vacuity: frames 0 (a failing Parse), 1 (a skipped Bind) and 6 (an Execute that returns a row) of the example *)
Example C06_ex_extended :
  let ts := tl (turns (run_case ex_case)) in
  option_map ext_frame (nth_error (client_frames ex_case) 0) = Some true /\
  option_map readies (nth_error ts 0) = Some 0%nat /\
  option_map ext_frame (nth_error (client_frames ex_case) 1) = Some true /\
  option_map readies (nth_error ts 1) = Some 0%nat /\
  option_map ext_frame (nth_error (client_frames ex_case) 6) = Some true /\
  option_map readies (nth_error ts 6) = Some 0%nat /\
  option_map (fun t => List.length (outs t)) (nth_error ts 6) = Some 2%nat.
Proof. vm_compute. repeat split. Qed.
