(* C06 — Extended Query: designated replies, one ReadyForQuery per Sync, skip on error. *)
Require Import Wire.Bytes Spec.BackendSpec Wire.Errors Wire.Framing Wire.Session
  Wire.SessionFacts Wire.CommandFacts.
Local Open Scope list_scope.
Local Open Scope Z_scope.

(* while skipping to the next Sync, every message other than Sync (and Terminate)
   — including simple Query, unknown and oversized messages — produces no output,
   invokes no callback and changes no state *)
Theorem C06_discard : forall c st t body rest tl,
  st_discard st = true -> Byte.eqb t x53 = false -> Byte.eqb t x58 = false ->
  cmd c st (FMsg t body) rest tl = ([], st, rest, Continue).
Proof. exact cmd_discard. Qed.
Print Assumptions C06_discard.

Theorem C06_discard_oversize : forall c st t size rest tl,
  st_discard st = true -> Byte.eqb t x53 = false ->
  cmd c st (FOver t size None) rest tl = ([], st, rest, Continue) /\
  cmd c st (FBad t size) rest tl = ([], st, rest, Continue).
Proof. exact cmd_discard_oversize. Qed.
Print Assumptions C06_discard_oversize.

(* Sync: exactly one ReadyForQuery, in every state, and the skipping ends *)
Theorem C06_sync : forall c st body rest tl,
  cmd c st (FMsg x53 body) rest tl = ([Out ready], set_discard st false, rest, Continue).
Proof. exact cmd_sync. Qed.
Print Assumptions C06_sync.

(* Flush: nothing *)
Theorem C06_flush : forall c st body rest tl,
  st_discard st = false -> cmd c st (FMsg x48 body) rest tl = ([], st, rest, Continue).
Proof. exact cmd_flush. Qed.
Print Assumptions C06_flush.

(* Parse / Bind / Describe / Close: the designated reply, or exactly one
   ErrorResponse which raises the skip flag; never a ReadyForQuery *)
Theorem C06_parse : forall c st body evs st' k,
  do_parse c st body = (evs, st', k) -> k = Continue ->
  ext_reply st st' evs (fun ms => match ms with [BParseComplete] => true | _ => false end).
Proof. exact do_parse_reply. Qed.
Print Assumptions C06_parse.

Theorem C06_bind : forall st body evs st' k,
  do_bind st body = (evs, st', k) -> k = Continue ->
  ext_reply st st' evs (fun ms => match ms with [BBindComplete] => true | _ => false end) /\ filter is_cb evs = [].
Proof. exact do_bind_reply. Qed.
Print Assumptions C06_bind.

Theorem C06_describe : forall st body evs st' k,
  do_describe st body = (evs, st', k) -> k = Continue ->
  ext_reply st st' evs (fun ms => match ms with
                                  | [BParamDesc _; BRowDesc _] | [BParamDesc _; BNoData]
                                  | [BRowDesc _] | [BNoData] => true
                                  | _ => false end) /\ filter is_cb evs = [].
Proof. exact do_describe_reply. Qed.
Print Assumptions C06_describe.

Theorem C06_close : forall st body evs st' k,
  do_close st body = (evs, st', k) -> k = Continue ->
  ext_reply st st' evs (fun ms => match ms with [BCloseComplete] => true | _ => false end) /\ filter is_cb evs = [].
Proof. exact do_close_reply. Qed.
Print Assumptions C06_close.

(* Execute: DataRows / CommandComplete from the handler, optionally one
   ErrorResponse last (which raises the skip flag); an unknown portal is such an
   error; no ReadyForQuery; the caches are untouched *)
Theorem C06_execute : forall c st body fs tl evs st' fs' k,
  do_execute c st body fs tl = (evs, st', fs', k) -> k = Continue ->
  (length fs' <= length fs)%nat /\
  ((forallb handler_msg (outs evs) = true /\ st_discard st' = st_discard st) \/
   (exists pre e, outs evs = pre ++ [BError e] /\ forallb handler_msg pre = true /\ st_discard st' = true)) /\
  st_stmts st' = st_stmts st /\ st_portals st' = st_portals st.
Proof. exact do_execute_reply. Qed.
Print Assumptions C06_execute.

(* a message exceeding the size limit: one ErrorResponse; ReadyForQuery exactly
   when the message is not an extended-protocol message *)
Theorem C06_oversize : forall c st t size evs st',
  do_oversize c st t size = (evs, st') -> st_discard st = false ->
  let e := err_msg (Some (e_size_exceeded (eff_limit (cfg_limit c)) size)) in
  (is_ext t = true -> outs evs = [e] /\ st_discard st' = true) /\
  (is_ext t = false -> outs evs = [e; ready] /\ st_discard st' = false) /\
  filter is_cb evs = [] /\ st_stmts st' = st_stmts st /\ st_portals st' = st_portals st.
Proof. exact do_oversize_spec. Qed.
Print Assumptions C06_oversize.

(* replies are produced message by message: the log of the loop on (f :: rest) is
   the reply to f followed by the log of the loop on what f left — by definition of
   [loop]; handling always ends *)
Theorem C06_ends : forall c fuel st fs tl,
  (length fs < fuel)%nat -> exists pre, loop fuel c st fs tl = pre ++ [Closed].
Proof. exact loop_ends. Qed.
Print Assumptions C06_ends.
