(* C07 — statement and portal names resolve to the latest definition, per connection. *)
Require Import Wire.Bytes Spec.BackendSpec Wire.Errors Wire.Framing Wire.Session
  Wire.SessionFacts Wire.CommandFacts Spec.Oracles.
Local Open Scope list_scope.

(* the caches refine partial maps (the abstract namespace [upd] of Spec/Oracles.v):
   a definition replaces the earlier one for that name and only for that name,
   for every name including the empty one *)
Theorem C07_set : forall (A : Type) k (v : A) l k',
  alist_get k' (alist_set k v l) = upd (fun x => alist_get x l) k (Some v) k'.
Proof.
  intros A k v l k'. unfold upd. destruct (bytes_eqb k' k) eqn:E.
  - apply bytes_eqb_eq in E. subst. apply alist_get_set_same.
  - apply alist_get_set_other. exact E.
Qed.
Print Assumptions C07_set.

(* Close makes the name unresolvable and leaves every other name alone *)
Theorem C07_del : forall (A : Type) k (l : list (bytes * A)) k',
  alist_get k' (alist_del k l) = upd (fun x => alist_get x l) k None k'.
Proof.
  intros A k l k'. unfold upd. destruct (bytes_eqb k' k) eqn:E.
  - apply bytes_eqb_eq in E. subst. apply alist_get_del_same.
  - apply alist_get_del_other. exact E.
Qed.
Print Assumptions C07_del.

(* Bind snapshots the statement currently stored under the name: the portal holds
   the statement itself, so parsing the name again or closing it afterwards does
   not change what the portal executes *)
Theorem C07_bind_snapshot : forall st body evs st' b s,
  decode_bind body = Some b -> alist_get (b_stmt b) (st_stmts st) = Some s ->
  do_bind st body = (evs, st', Continue) ->
  alist_get (b_portal b) (st_portals st') =
    Some {| p_stmt := s; p_params := b_params b; p_rfmts := b_rfmts b |} /\
  st_stmts st' = st_stmts st.
Proof.
  intros st body evs st' b s D G H. unfold do_bind in H. rewrite D, G in H.
  injection H as <- <-. cbn [st_portals st_stmts]. split; [apply alist_get_set_same|reflexivity].
Qed.
Print Assumptions C07_bind_snapshot.

(* Parse and Close of statements never touch the portals; Execute touches neither *)
Theorem C07_parse_keeps_portals : forall c st body evs st' k,
  do_parse c st body = (evs, st', k) -> st_portals st' = st_portals st.
Proof.
  intros c st body evs st' k H. unfold do_parse in H.
  destruct (take_cstr body) as [[name l1]|]; [|injection H as <- <- <-; reflexivity].
  destruct (take_cstr l1) as [[q l2]|]; [|injection H as <- <- <-; reflexivity].
  destruct (p_u16 l2) as [[n l3]|]; [|injection H as <- <- <-; reflexivity].
  destruct (cfg_parse c q) as [e|[|s [|s2 r]]]; injection H as <- <- <-; reflexivity.
Qed.
Print Assumptions C07_parse_keeps_portals.

(* Execute runs exactly the portal's statement with that Bind's parameters and formats *)
Theorem C07_execute_runs_bound : forall c st name junk fs tl p,
  nul_free name = true -> (4 <= lenZ junk)%Z ->
  alist_get name (st_portals st) = Some p ->
  exists evs st' fs' k,
    do_execute c st (name ++ x00 :: junk) fs tl = (evs, st', fs', k) /\
    exists evs1, evs = CbExec (s_id (p_stmt p)) (p_params p) :: evs1.
Proof.
  intros c st name junk fs tl p Hn Hj G. unfold do_execute.
  assert (T : take_cstr (name ++ x00 :: junk) = Some (name, junk)).
  { clear G. induction name as [|b r IH]; cbn [app take_cstr nul_free] in *; [reflexivity|].
    apply andb_prop in Hn as [H1 H2]. destruct (Byte.eqb b x00); [discriminate|]. rewrite IH by exact H2. reflexivity. }
  rewrite T.
  destruct junk as [|a [|b [|c4 [|d r]]]]; try (unfold lenZ in Hj; cbn in Hj; lia).
  cbn [p_u32]. rewrite G.
  destruct (run_stmt c (p_stmt p) (p_rfmts p) (p_params p) fs tl) as [[evs1 fs1] res] eqn:E.
  destruct (run_stmt_spec _ _ _ _ _ _ _ _ _ E) as (_ & _ & _ & [evs' Hev]). subst evs1.
  destruct res.
  - do 4 eexists. split; [reflexivity|]. eexists. reflexivity.
  - destruct (ext_err st e) as [e2 s2] eqn:X. do 4 eexists. split; [reflexivity|]. eexists. reflexivity.
  - destruct (ext_err st e_panic) as [e2 s2] eqn:X. do 4 eexists. split; [reflexivity|]. eexists. reflexivity.
Qed.
Print Assumptions C07_execute_runs_bound.

(* per connection: the caches are part of the connection's own state [sst], created
   empty by [session]; no function of the model takes another connection's state *)
Theorem C07_fresh : st_stmts st_init = [] /\ st_portals st_init = [].
Proof. split; reflexivity. Qed.

(* ---------- the whole connection against the executable oracle ---------- *)
Require Import Wire.RobustFacts Wire.Case Spec.OracleFacts Spec.OracleFactsNames.

(* The oracle replays the client's messages against an ABSTRACT namespace — two partial
   functions from names — and demands of every reply what that namespace says: a Bind
   of a defined statement succeeds and snapshots it, an Execute runs exactly the
   statement its portal was bound to, exactly once, with that Bind's parameters, a
   Describe describes it, a closed or never defined name is an error, nothing runs for
   an unknown portal.  For every case without COPY handlers the log of the model passes
   it: the session's caches refine the abstract namespace message by message
   ([OracleFactsNames.nmatch]), over histories of any length. *)
Theorem C07_model_satisfies_oracle : forall sc,
  case_nocopy sc = true ->
  (forall v after rest, start (cfg_of_case sc) (sc_raw sc) = Some (v, after, rest) -> v <> version_ssl) ->
  oracle_names sc (run_case sc) = true.
Proof. exact oracle_names_model. Qed.
Print Assumptions C07_model_satisfies_oracle.
