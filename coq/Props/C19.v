(* C19 — session lifecycle: middleware order, terminate hook, end of handling. *)
Require Import Wire.Bytes Spec.BackendSpec Wire.Errors Wire.Framing Wire.Session
  Wire.SessionFacts Wire.CommandFacts.
Local Open Scope list_scope.
Local Open Scope Z_scope.

(* for every list of middleware outcomes: they run in registration order, each once,
   up to and including the first failing one; the chain succeeds iff none fails *)
Theorem C19_order : forall mws i,
  run_mws mws i =
  if Nat.eqb (ok_prefix mws) (length mws) then (mw_events (length mws) i, true)
  else (mw_events (S (ok_prefix mws)) i, false).
Proof. exact run_mws_spec. Qed.
Print Assumptions C19_order.

(* Terminate, in every state including while skipping to Sync: the hook (if any)
   runs once and the connection ends; nothing that follows is processed *)
Theorem C19_terminate : forall c st body rest tl,
  cmd c st (FMsg x58 body) rest tl =
  (match cfg_term c with None => [] | Some _ => [CbTerminate] end, st, rest, Stop).
Proof.
  intros. unfold cmd. replace (Byte.eqb x58 x53) with false by reflexivity.
  replace (Byte.eqb x58 x58) with true by reflexivity. rewrite andb_false_r.
  cbn. destruct (cfg_term c); reflexivity.
Qed.
Print Assumptions C19_terminate.

Theorem C19_stop_is_final : forall c fuel st f rest tl evs st' fs',
  cmd c st f rest tl = (evs, st', fs', Stop) ->
  loop (S fuel) c st (f :: rest) tl = Consume :: evs ++ [Closed].
Proof. intros c fuel st f rest tl evs st' fs' H. cbn [loop]. rewrite H. reflexivity. Qed.
Print Assumptions C19_stop_is_final.

(* handling of a connection always ends *)
Theorem C19_ends : forall c fuel st fs tl,
  (length fs < fuel)%nat -> exists pre, loop fuel c st fs tl = pre ++ [Closed].
Proof. exact loop_ends. Qed.
Print Assumptions C19_ends.

(* ---------- the whole connection against the executable oracle ---------- *)
Require Import Wire.RobustFacts Wire.Case Spec.Oracles Spec.OracleFacts Spec.OracleFactsLife.

(* For every case the harness can script (any authentication strategy and outcome, any
   list of middleware outcomes, terminate hook present or not, any parser table and
   handler programs, any byte stream): the log of the model passes [oracle_C19] — the
   middlewares run in registration order, each at most once, after AuthenticationOk and
   the parameter block and before the first ReadyForQuery or command; the first failing
   one is the last to run and ends the connection before anything is served; the
   terminate hook runs at most once and only a Closed follows it; it never runs when
   none is configured. *)
Theorem C19_model_satisfies_oracle : forall sc,
  (forall v after rest, start (cfg_of_case sc) (sc_raw sc) = Some (v, after, rest) -> v <> version_ssl) ->
  oracle_C19 sc (run_case sc) = true.
Proof. exact oracle_C19_model. Qed.
Print Assumptions C19_model_satisfies_oracle.
