(* C20 — ParseParameters is total and counts placeholders correctly.
   Only statements; every proof is [exact <lemma>] from Wire/ParamsFacts.v. *)
Require Import Wire.Bytes Wire.Params Spec.ParamsSpec Wire.ParamsFacts.
Local Open Scope Z_scope.

(* no panic: the only slice expression left in the function, the final
   parameters[:65535], is within bounds for every query *)
Theorem C20_total : forall q, pp_checked q = Some (parse_parameters q).
Proof. exact pp_checked_total. Qed.
Print Assumptions C20_total.

Theorem C20_range : forall q, 0 <= lenZ (parse_parameters q) <= 65535.
Proof. intros q. rewrite pp_length. exact (pp_len_range q). Qed.
Print Assumptions C20_range.

Theorem C20_unspecified : forall q, Forall (fun oid => oid = 0) (parse_parameters q).
Proof. exact pp_all_zero. Qed.
Print Assumptions C20_unspecified.

(* $n style: the highest positional index (specification: cut at '$', read the
   leading digits), capped at the protocol limit *)
Theorem C20_dollar : forall q,
  has_qmark q = false ->
  lenZ (parse_parameters q) = Z.min 65535 (max_index q).
Proof. intros q H. rewrite pp_length. exact (pp_dollar q H). Qed.
Print Assumptions C20_dollar.

(* ? style: the number of markers, capped *)
Theorem C20_qmark : forall q,
  has_dollar_index q = false ->
  lenZ (parse_parameters q) = Z.min 65535 (count_qmark q).
Proof. intros q H. rewrite pp_length. exact (pp_qmark q H). Qed.
Print Assumptions C20_qmark.

(* work: the number of append operations before the final truncation *)
Theorem C20_work : forall q, pp_raw q <= count_qmark q + 65535.
Proof. exact pp_work. Qed.
Print Assumptions C20_work.

(* the executable oracle evaluated on the implementation's results uses linear-time
   versions of the specification functions: they are equal *)
Theorem C20_oracle_is_spec : forall q, max_index_fast q = max_index q /\ has_dollar_index_fast q = has_dollar_index q.
Proof. intros q. split; [exact (max_index_fast_eq q)|exact (has_dollar_index_fast_eq q)]. Qed.
Print Assumptions C20_oracle_is_spec.

(* memory: the result grows by appending (at most doubling), so the bytes it can ever
   occupy are within the budget the allocation oracle allows for that query *)
Theorem C20_alloc_budget : forall q, 2 * 4 * pp_raw q <= alloc_budget q.
Proof. exact pp_alloc_within_budget. Qed.
Print Assumptions C20_alloc_budget.
(* non-vacuity and sanity *)
From Coq Require Import String.
Local Open Scope string_scope.
Example C20_ex_dollar :
  has_qmark (bs "select $2, $1 from t where a = $7 and b = $7") = false /\
  lenZ (parse_parameters (bs "select $2, $1 from t where a = $7 and b = $7")) = 7.
Proof. vm_compute. split; reflexivity. Qed.
Example C20_ex_qmark :
  has_dollar_index (bs "select ? , ? , $ , $x ?") = false /\
  lenZ (parse_parameters (bs "select ? , ? , $ , $x ?")) = 3.
Proof. vm_compute. split; reflexivity. Qed.
Example C20_ex_huge :
  lenZ (parse_parameters (bs "select $99999999999999999999")) = 65535.
Proof. vm_compute. reflexivity. Qed.
Example C20_ex_edge :
  map (fun s => lenZ (parse_parameters (bs s))) ["$$1"; "$1$2"; "?$"; "$0"; "$01"; ""; "$65536"; "$65535"]
  = [1; 2; 1; 0; 1; 0; 65535; 65535].
Proof. vm_compute. reflexivity. Qed.

(* the pinned implementation panics on the input of the property text *)
Theorem C20_pinned_refuted : exists q, pp_pinned q = None.
Proof. exists (bs "select $5"). vm_compute. reflexivity. Qed.
