(* C18 — data handed to callbacks is never overwritten by later traffic. *)
Require Import Wire.Bytes Spec.BackendSpec Wire.ReaderModel Wire.ReaderFacts.
Local Open Scope list_scope.

(* Query texts, parameter values, client parameters and passwords are views of
   reader.Msg returned by GetString / GetBytes.  For EVERY sequence of reader
   operations — resets of any sizes (around the 4096-byte granule, the message
   limit, the windows of a Slurp over an oversized message, COPY reads) with any
   pattern of getter calls in between — every write the reader performs (reading a
   message into Msg) targets a range disjoint from every view returned before it. *)
Theorem C18_never_overwritten : forall ops, writes_safe (rrun ops) = true.
Proof. exact reader_never_overwrites. Qed.
Print Assumptions C18_never_overwritten.

(* the invariant behind it, for every reachable reader state: views inside the
   current allocation end at or before the start of Msg, and windows only move
   forward or go to a fresh allocation *)
Theorem C18_invariant : forall ops, hinv (rrun ops).
Proof. intros ops. unfold rrun. apply hinv_run. exact hinv_init. Qed.
Print Assumptions C18_invariant.

(* non-vacuity: a run in which the tail of an allocation is reused and a new
   allocation is made, with views retained across both *)
Example C18_ex :
  let h := rrun [RReset 10; RTake 4 1; RTake 3 0; RReset 4000; RTake 100 1; RReset 200; RTake 50 0; RReset 5000] in
  h_alloc h = 2 /\ length (h_views h) = 4 /\ length (h_writes h) = 4 /\ writes_safe h = true.
Proof. vm_compute. repeat split; reflexivity. Qed.

(* a reader that rewinds to the start of its buffer (Msg = Msg[:0]) would violate it *)
Definition rstep_rewind (h : rheap) (size : nat) : rheap :=
  {| h_next := h_next h; h_alloc := h_alloc h; h_off := 0; h_len := size; h_cap := h_cap h + h_off h; h_nil := false;
     h_views := h_views h;
     h_writes := ({| r_alloc := h_alloc h; r_lo := 0; r_hi := size |}, h_views h) :: h_writes h |}.
Theorem C18_rewind_refuted : writes_safe (rstep_rewind (rrun [RReset 10; RTake 4 1]) 8) = false.
Proof. vm_compute. reflexivity. Qed.
