(* C11 — TLS upgrade: everything after 'S' is inside the TLS session, nothing
   before it is trusted.  In the model the connection has two inputs: the raw
   bytes on the TCP connection and the plaintext the client sends INSIDE the TLS
   session ([None]: the handshake fails; crypto/tls is an oracle). *)
Require Import Wire.Bytes Spec.BackendSpec Wire.Errors Wire.Framing Wire.Session.
Local Open Scope list_scope.
Local Open Scope Z_scope.

(* with certificates: the only raw reply is the single byte 'S'; what follows is
   determined by the TLS plaintext alone *)
Definition after_upgrade (c : cfg) (tls : option bytes) : list ev :=
  match tls with
  | None => [Closed]
  | Some plain =>
      match start c plain with
      | None => [Closed]
      | Some (v2, after2, rest2) => if v2 =? version_cancel then [Closed] else session c after2 rest2
      end
  end.

Theorem C11_reply_S : forall c raw tls after rest,
  cfg_tls c = true -> start c raw = Some (version_ssl, after, rest) ->
  serve c raw tls = RawOut x53 :: after_upgrade c tls.
Proof. intros c raw tls after rest T S. unfold serve, after_upgrade. rewrite S, T. reflexivity. Qed.
Print Assumptions C11_reply_S.

(* plaintext pushed behind the SSLRequest — whatever it is, however much of it the
   old reader had buffered — influences nothing: two raw streams that both start
   with an SSLRequest give the same log for the same TLS input *)
Theorem C11_stuffed : forall c raw raw' tls a r a' r',
  cfg_tls c = true ->
  start c raw = Some (version_ssl, a, r) -> start c raw' = Some (version_ssl, a', r') ->
  serve c raw tls = serve c raw' tls.
Proof.
  intros c raw raw' tls a r a' r' T S S'.
  rewrite (C11_reply_S c raw tls a r T S), (C11_reply_S c raw' tls a' r' T S'). reflexivity.
Qed.
Print Assumptions C11_stuffed.

(* the TLS session behaves exactly like its plaintext equivalent: the log after 'S'
   is the log of the same byte stream served without TLS *)
Theorem C11_same_session : forall c raw plain a r v2 a2 r2 tls',
  cfg_tls c = true -> start c raw = Some (version_ssl, a, r) ->
  start c plain = Some (v2, a2, r2) -> v2 <> version_ssl ->
  serve c raw (Some plain) = RawOut x53 :: serve c plain tls'.
Proof.
  intros c raw plain a r v2 a2 r2 tls' T S S2 N.
  rewrite (C11_reply_S c raw (Some plain) a r T S). f_equal.
  unfold after_upgrade, serve. rewrite S2.
  destruct (Z.eqb_spec v2 version_cancel); [reflexivity|].
  destruct (Z.eqb_spec v2 version_ssl); [contradiction|reflexivity].
Qed.
Print Assumptions C11_same_session.

(* without certificates: the single byte 'N', then the same connection continues
   in plaintext with a fresh startup packet; the TLS input is irrelevant; a
   CancelRequest there is closed silently *)
Theorem C11_reply_N : forall c raw tls after rest,
  cfg_tls c = false -> start c raw = Some (version_ssl, after, rest) ->
  serve c raw tls = RawOut x4e ::
    match start c rest with
    | None => [Closed]
    | Some (v2, after2, rest2) => if v2 =? version_cancel then [Closed] else session c after2 rest2
    end.
Proof. intros c raw tls after rest T S. unfold serve. rewrite S, T. reflexivity. Qed.
Print Assumptions C11_reply_N.

(* a second SSLRequest (inside TLS or after 'N') is not negotiated again: its packet has
   no parameter block, so the connection is closed without any protocol reply *)
Theorem C11_second_sslrequest : forall c s,
  session c [] s = [Closed].
Proof. intros c s. unfold session. reflexivity. Qed.
Print Assumptions C11_second_sslrequest.

(* the refusal restarts nothing: on a server without certificates the connection that opened with an
   SSLRequest is, behind the single byte 'N', exactly the connection of the remaining byte stream — whatever
   that stream is and however it was segmented (the model reads one byte stream): the startup packet that
   travelled in the same segment as the SSLRequest is honoured like any other *)
Theorem C11_declined_transparent : forall c raw tls tls' a r v2 a2 r2,
  cfg_tls c = false -> start c raw = Some (version_ssl, a, r) ->
  start c r = Some (v2, a2, r2) -> v2 <> version_ssl ->
  serve c raw tls = RawOut x4e :: serve c r tls'.
Proof.
  intros c raw tls tls' a r v2 a2 r2 T S S2 N.
  rewrite (C11_reply_N c raw tls a r T S). f_equal. unfold serve. rewrite S2.
  destruct (Z.eqb_spec v2 version_cancel); [reflexivity|].
  destruct (Z.eqb_spec v2 version_ssl); [contradiction|reflexivity].
Qed.
Print Assumptions C11_declined_transparent.
