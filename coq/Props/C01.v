(* C01 — rejected credentials never yield a session. *)
Require Import Wire.Bytes Spec.BackendSpec Wire.Errors Wire.Framing Wire.Session
  Wire.SessionFacts Wire.CommandFacts.
From Coq Require Import String.
Local Open Scope string_scope.
Local Open Scope list_scope.
Local Open Scope Z_scope.

(* for every configuration with an authentication strategy, every set of client
   parameters and every byte stream sent in place of / after the password message:
   if the strategy does not accept, no AuthenticationOk is sent, no ReadyForQuery is
   sent, nothing of the client's further input is retained for processing, and the
   only user callback that ran is the validator *)
Theorem C01_reject : forall c cparams s evs rest ok,
  cfg_auth c <> None ->
  auth_phase c cparams s = (evs, rest, ok) -> ok = false ->
  existsb is_auth_ok evs = false /\ rest = [] /\ only_validate evs = true /\
  forallb (fun m => negb (is_ready m)) (outs evs) = true.
Proof. exact auth_phase_reject. Qed.
Print Assumptions C01_reject.

(* ... and the connection is closed right after the authentication exchange:
   no ParameterStatus, no middleware, no command is ever processed *)
Theorem C01_closed : forall c after s cparams evs rest,
  read_params (S (List.length after)) after = Some cparams ->
  auth_phase c cparams s = (evs, rest, false) ->
  session c after s = evs ++ [Closed].
Proof. exact session_reject. Qed.
Print Assumptions C01_closed.

(* the authenticated phase is entered only through an accepting validation of this
   connection's own startup database/user and the password it sent *)
Theorem C01_gate : forall c validate cparams s evs rest,
  cfg_auth c = Some validate ->
  auth_phase c cparams s = (evs, rest, true) ->
  exists pw, evs = [Out (BAuth 3); CbValidate (param_get (bs "database") cparams) (param_get (bs "user") cparams) pw; Out (BAuth 0)] /\
             validate (param_get (bs "database") cparams) (param_get (bs "user") cparams) pw = VAccept.
Proof. exact auth_phase_accept. Qed.
Print Assumptions C01_gate.

(* a wrong password is reported with SQLSTATE class 28 *)
Theorem C01_class28 :
  get_code e_invalid_password = bs "28P01".
Proof. reflexivity. Qed.

(* non-vacuity: a rejected password followed by a pipelined query *)
Definition ex_cfg : cfg :=
  {| cfg_limit := 0; cfg_auth := Some (fun _ _ pw => if bytes_eqb pw (bs "secret") then VAccept else VReject);
     cfg_params := []; cfg_version := []; cfg_tls := false; cfg_mws := [true]; cfg_term := None;
     cfg_parse := fun _ => POk []; cfg_encode := fun _ _ _ => EncNull |}.
Definition ex_raw : bytes :=
  (let body := be32 196608 ++ cstr (bs "user") ++ cstr (bs "a") ++ [x00] in be32 (4 + lenZ body) ++ body) ++
  client_msg x70 (cstr (bs "bad")) ++ client_msg x51 (cstr (bs "q;")).
Example C01_ex :
  serve ex_cfg ex_raw None
  = [Out (BAuth 3); CbValidate [] (bs "a") (bs "bad"); Out (err_msg (Some e_invalid_password)); Closed].
Proof. vm_compute. reflexivity. Qed.

(* ---------- the whole connection against the executable oracle ---------- *)
Require Import Wire.RobustFacts Wire.Case Spec.Oracles Spec.OracleFacts Spec.OracleFactsAuth.

(* For every case the harness can script — any startup packet, any of the four validator
   behaviours (compare with a password, accept, reject, fail), any byte stream in place
   of and behind the password message, any middlewares, parser table and handler
   programs (COPY included) — the log of the model passes [oracle_C01], the predicate
   evaluated on the implementation's logs: the validator only ever sees the password
   actually sent; AuthenticationOk, ParameterStatus, ReadyForQuery and every callback
   other than the validator occur only after an accepting validation; without one the
   connection is closed with no AuthenticationOk, and a validator that said no is
   reported with SQLSTATE class 28. *)
Theorem C01_model_satisfies_oracle : forall sc,
  mode_ok sc ->
  (forall v after rest, start (cfg_of_case sc) (sc_raw sc) = Some (v, after, rest) -> v <> version_ssl) ->
  oracle_C01 sc (run_case sc) = true.
Proof. exact oracle_C01_model. Qed.
Print Assumptions C01_model_satisfies_oracle.

Definition ex_case (mode : Z) : scase :=
  {| sc_limit := 0; sc_auth := Some (mode, bs "secret"); sc_params := []; sc_version := []; sc_tls := false; sc_mws := [true];
     sc_term := None; sc_parse := []; sc_raw := ex_raw; sc_tlsin := None |}.
Example C01_ex_model :
  mode_ok (ex_case 0) /\ map (fun m => oracle_C01 (ex_case m) (run_case (ex_case m))) [0; 1; 2; 3] = [true; true; true; true] /\
  map (fun m => List.length (run_case (ex_case m))) [0; 1; 2; 3] = [4; 14; 4; 3]%nat.
Proof. split; [unfold mode_ok; cbn; lia|]. vm_compute. split; reflexivity. Qed.
