(* C14 — binary COPY rows decode to what was sent, however the stream is chunked. *)
Require Import Wire.Bytes Spec.BackendSpec Wire.Transport Wire.Copy Wire.CopyFacts Wire.CopyRoundtrip.
Local Open Scope list_scope.
Local Open Scope Z_scope.

(* reading through the library's row reader yields exactly the rows the client
   encoded — any table shape over the modelled types, any rows, NULLs anywhere —
   with the standard header, with or without the end-of-data trailer (and
   whatever follows the trailer) *)
Theorem C14_roundtrip : forall L oids rows tail,
  16 <= L -> lenZ oids < 65535 -> forallb (wf_row L oids) rows = true ->
  (tail = [] \/ exists junk, tail = copy_trailer ++ junk) ->
  decode_all L oids EDone [copy_header ++ flat_map (enc_row oids) rows ++ tail] = (rows, CEnd).
Proof. exact decode_all_roundtrip. Qed.
Print Assumptions C14_roundtrip.

(* the result does not depend on how the client splits the stream into CopyData
   messages: every split — empty messages, cuts inside the signature, a count, a
   length or a value — and every way the stream ends *)
Theorem C14_chunking : forall L oids e chunks1 chunks2,
  concat chunks1 = concat chunks2 -> decode_all L oids e chunks1 = decode_all L oids e chunks2.
Proof. exact decode_all_chunking. Qed.
Print Assumptions C14_chunking.

(* hence for EVERY split of a well-formed stream the rows come back *)
Theorem C14_any_split : forall L oids rows tail chunks,
  16 <= L -> lenZ oids < 65535 -> forallb (wf_row L oids) rows = true ->
  (tail = [] \/ exists junk, tail = copy_trailer ++ junk) ->
  concat chunks = copy_header ++ flat_map (enc_row oids) rows ++ tail ->
  decode_all L oids EDone chunks = (rows, CEnd).
Proof.
  intros L oids rows tail chunks HL Hc W Ht E.
  rewrite (decode_all_chunking L oids EDone chunks [copy_header ++ flat_map (enc_row oids) rows ++ tail]).
  - apply decode_all_roundtrip; assumption.
  - rewrite E. cbn. rewrite app_nil_r. reflexivity.
Qed.
Print Assumptions C14_any_split.

(* a row whose field count differs from the declared columns is an error, never a row *)
Theorem C14_bad_count : forall L oids e segs a b rest,
  read_full 1 segs <> None -> read_full 2 segs = Some ([a; b], rest) ->
  rd16 a b <> 65535 -> rd16 a b <> lenZ oids ->
  fst (read_row L oids e {| b_segs := segs; b_started := true; b_over := false |}) = CFail.
Proof. exact read_row_bad_count. Qed.
Print Assumptions C14_bad_count.

(* [decode_all] is a total function: truncated fields, lengths pointing past the end
   of the stream or above the limit end in CFail (an error), there is no crash outcome *)
Example C14_ex_truncated :
  decode_all 64 [23; 25] EDone [copy_header ++ be16 2 ++ be32 4 ++ be32 7 ++ be32 9 ++ [x61; x62]] = ([], CFail).
Proof. vm_compute. reflexivity. Qed.
Example C14_ex_split :
  decode_all 64 [23; 25] EDone [firstn 5 copy_header; skipn 5 copy_header ++ be16 2 ++ be32 4 ++ [x00; x00]; [x00; x07] ++ be32 4294967295 ++ [xff]; [xff]]
  = ([[DInt 7; DNull]], CEnd).
Proof. vm_compute. reflexivity. Qed.

(* ---- from the client's messages to the rows ---- *)
Require Import Wire.Errors Wire.Framing Wire.Session Spec.CopyBridge.

(* The chunks the row reader works on are what successive CopyReader.Read calls return. For a COPY-in as the
   client sends it — the well-formed stream cut into CopyData messages in ANY way, Flush and Sync messages
   anywhere in between, closed by CopyDone, whatever follows — those calls return exactly the payloads, in
   order, then end-of-stream, leaving what follows untouched; and the rows decoded from them are the rows
   the client encoded. *)
Theorem C14_from_messages : forall L oids rows tail fs chunks rest tl fuel,
  16 <= L -> lenZ oids < 65535 -> forallb (wf_row L oids) rows = true ->
  (tail = [] \/ exists junk, tail = copy_trailer ++ junk) ->
  copy_stream fs chunks rest -> concat chunks = copy_header ++ flat_map (enc_row oids) rows ++ tail ->
  (List.length fs < fuel)%nat ->
  copy_reads fuel L fs tl = (chunks, OEof, rest) /\ decode_all L oids EDone chunks = (rows, CEnd).
Proof.
  intros L oids rows tail fs chunks rest tl fuel HL Hc W Ht S E Hf. split.
  - apply copy_reads_stream; assumption.
  - eapply C14_any_split; eauto.
Qed.
Print Assumptions C14_from_messages.

Example C14_ex_messages :
  let stream := copy_header ++ be16 2 ++ be32 4 ++ be32 7 ++ be32 4294967295 ++ copy_trailer in
  let fs := [FMsg x64 (firstn 7 stream); FMsg x48 []; FMsg x64 []; FMsg x53 []; FMsg x64 (skipn 7 stream); FMsg x63 []; FMsg x51 [x00]] in
  copy_stream fs [firstn 7 stream; []; skipn 7 stream] [FMsg x51 [x00]] /\
  copy_reads 8 64 fs REof = ([firstn 7 stream; []; skipn 7 stream], OEof, [FMsg x51 [x00]]) /\
  decode_all 64 [23; 25] EDone [firstn 7 stream; []; skipn 7 stream] = ([[DInt 7; DNull]], CEnd).
Proof.
  cbv zeta. split; [|split; vm_compute; reflexivity].
  apply cs_data, cs_noise; [left; reflexivity|]. apply cs_data, cs_noise; [right; reflexivity|]. apply cs_data, cs_done.
Qed.
