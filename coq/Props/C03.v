(* C03 — request parsing depends only on the byte stream, message by message. *)
Require Import Wire.Bytes Spec.BackendSpec Spec.BackendSpecFacts Wire.Errors Wire.Framing Wire.Session
  Wire.Transport Wire.TransportFacts Wire.ReaderModel Wire.ReaderFacts Wire.WireFacts Wire.SessionFacts Wire.CommandFacts.
Local Open Scope list_scope.

(* io.ReadFull over any segmentation returns the first n bytes of the
   concatenated stream and leaves a reader whose remaining stream is the rest;
   it fails exactly when fewer than n bytes remain *)
Theorem C03_read_full : forall segs n,
  match read_full n segs with
  | Some (a, segs') => a = firstn n (concat segs) /\ concat segs' = skipn n (concat segs) /\ length a = n
  | None => (length (concat segs) < n)%nat
  end.
Proof. exact read_full_spec. Qed.
Print Assumptions C03_read_full.

(* hence NO deterministic consumer built on ReadFull (the library reads the
   1-byte type, the 4-byte length and the body this way, each size a function of
   the bytes returned before) can distinguish two segmentations of one stream *)
Theorem C03_segmentation : forall fuel k sofar segs1 segs2,
  concat segs1 = concat segs2 ->
  consume fuel k sofar segs1 = consume fuel k sofar segs2.
Proof. exact consume_segmentation. Qed.
Print Assumptions C03_segmentation.

(* every message is consumed in exactly its declared length: a complete message
   within the limit is framed as sent whatever its body contains, and the bytes
   after it are framed independently of it *)
Theorem C03_exact_length : forall f L t body rest,
  (lenZ body <= eff_limit L)%Z -> (4 + lenZ body < 4294967296)%Z ->
  frames_fuel (S f) L (client_msg t body ++ rest) =
  (FMsg t body :: fst (frames_fuel f L rest), snd (frames_fuel f L rest)).
Proof. exact frames_step_client_msg. Qed.
Print Assumptions C03_exact_length.

(* unread or surplus fields do not influence anything: Sync, Flush, Terminate and
   the stray COPY messages ignore their whole body ... *)
Theorem C03_sync_body_ignored : forall c st body body' rest tl,
  cmd c st (FMsg x53 body) rest tl = cmd c st (FMsg x53 body') rest tl.
Proof. intros. rewrite !cmd_sync. reflexivity. Qed.
Theorem C03_flush_body_ignored : forall c st body body' rest tl,
  st_discard st = false -> cmd c st (FMsg x48 body) rest tl = cmd c st (FMsg x48 body') rest tl.
Proof. intros. rewrite !cmd_flush by assumption. reflexivity. Qed.
(* ... a Bind ignores whatever follows its last declared field ... *)
Theorem C03_bind_surplus_ignored : forall r junk junk',
  wf_bind r = true ->
  decode_bind_raw (enc_bind r ++ junk) = decode_bind_raw (enc_bind r ++ junk').
Proof. intros r junk junk' H. rewrite !decode_bind_raw_enc by exact H. reflexivity. Qed.
Print Assumptions C03_bind_surplus_ignored.
(* ... and the startup packet ignores what follows the parameter terminator *)
Theorem C03_startup_surplus_ignored : forall ps fuel junk junk',
  forallb wf_pair ps = true -> (length ps < fuel)%nat ->
  read_params fuel (flat_map enc_pair ps ++ x00 :: junk) = read_params fuel (flat_map enc_pair ps ++ x00 :: junk').
Proof. intros. rewrite !read_params_enc by assumption. reflexivity. Qed.
Print Assumptions C03_startup_surplus_ignored.

(* the field accessors: total (no panic), they return a prefix-cut of the current
   message and leave a suffix of it — never anything beyond the message *)
Theorem C03_accessor_within : forall msg o,
  let (r, rest) := astep msg o in exists used, msg = used ++ rest.
Proof. exact astep_suffix. Qed.
Print Assumptions C03_accessor_within.

(* GetString errs exactly when no NUL remains; the fixed-width getters err exactly
   when fewer bytes remain *)
Theorem C03_getstring_err : forall msg, fst (astep msg AString) = RFail <-> nul_free msg = true.
Proof. exact astring_fails_iff. Qed.
Theorem C03_getuint16_err : forall msg, fst (astep msg AU16) = RFail <-> (length msg < 2)%nat.
Proof. exact au16_fails_iff. Qed.
Theorem C03_getuint32_err : forall msg, fst (astep msg AU32) = RFail <-> (length msg < 4)%nat.
Proof. exact au32_fails_iff. Qed.
Print Assumptions C03_getuint32_err.

(* ---- whole connections ---- *)
Require Import Wire.Session Wire.Case Spec.Oracles Spec.OracleFactsParse.
(* nothing of one message leaks into the interpretation of another: whatever the client's byte stream (surplus
   fields, bodies of skipped or oversized messages that look like protocol messages, declared lengths up to
   2^32-1), the query texts the parse function is called with are, in order and each at most once, the query
   texts of the complete Query / Parse messages the stream frames to under the declared lengths *)
Theorem C03_parser_sees_the_framed_messages : forall sc,
  (forall v after rest, start (cfg_of_case sc) (sc_raw sc) = Some (v, after, rest) -> v <> version_ssl) ->
  oracle_parse_budget sc (run_case sc) = true.
Proof. exact oracle_parse_budget_model. Qed.
Print Assumptions C03_parser_sees_the_framed_messages.
